/-
C13 — Callback event protocol.

"During learn() a callback sees training-start once, then for each rollout a rollout-start, one step
event per vectorised environment step (with its timestep counter and locals describing that very
step) and a rollout-end, then training-end once; a step event returning False stops training before
any further environment step. Callback lists, event/every-N, evaluation and checkpoint callbacks
forward events to their children and fire at exactly their documented cadence."

Property theorems only (helper lemmas: `SB3Verif/Lemmas/Callback.lean`). All statements are about the
executable model `SB3Verif/Model/Callback.lean`, whose definitions the driver
`SB3Verif/Driver/C13.lean` runs against the real `learn()` loops and callback classes.
-/
import SB3Verif.Lemmas.Callback

namespace SB3Verif.C13

open SB3Verif.Callback

/-! ### The training loop: what the root callback sees (any algorithm, any callback) -/

/-- **Protocol of one `learn()`** — for every loop configuration (on- or off-policy, `n_envs`, rollouts
counted in steps or in episodes, any episode-end pattern), every callback whatsoever (any state
type, any answers — hence any stop pattern), every budget, with or without counter reset, and every
number `n` of control-flow steps executed so far (so: for every reachable state, also the unfinished
ones), the calls made on the root callback are accepted by the protocol monitor `P`:
`trainingStart (rolloutStart (updateLocals step)* updateLocals? rolloutEnd)* trainingEnd`, each `step`
directly preceded by the `update_locals` of a *new* environment step and carrying the counter
`previous + n_envs`, nothing but `trainingEnd` after a `step` that answered `False`. The monitor's
counters are the loop's (`num_timesteps`, environment steps), and a finished `learn` ends in the final
state. -/
theorem protocol_accepted {σ : Type} (cfg : Cfg) (h : σ → Call → σ × Bool) (prevNum g0 : Nat) (cb : σ)
    (totalArg : Nat) (reset : Bool) (n : Nat) :
    let s := LS.runN cfg h n (LS.setup prevNum g0 cb totalArg reset)
    let p := P.run cfg.nEnvs g0 s.trace
    p.st ≠ .reject ∧ p.g = s.g ∧ (s.pc ≠ .start → p.num = s.num) ∧ (s.pc = .done → p.st = .final) := by
  have hi := Lemmas.inv_runN cfg h g0 (if reset then 0 else prevNum) n _
    (Lemmas.inv_setup cfg.nEnvs prevNum g0 cb totalArg reset)
  refine ⟨?_, hi.g, hi.num, ?_⟩
  · have := hi.st
    intro hr
    rw [hr] at this
    cases hpc : (LS.runN cfg h n (LS.setup prevNum g0 cb totalArg reset)).pc <;>
      simp [hpc, Lemmas.pcOk] at this
  · intro hpc
    have := hi.st
    simpa [hpc, Lemmas.pcOk] using this

/-- **One step event per vectorised environment step, with its counter**: in every reachable state
the `step` calls made so far carry exactly `start + n_envs, start + 2·n_envs, …`, one per
environment step made in this call (`s.g - g0` of them), and the model's counter is
`start + n_envs · steps`; `start` is `0` after a reset and the previous counter otherwise. -/
theorem one_step_event_per_env_step {σ : Type} (cfg : Cfg) (h : σ → Call → σ × Bool) (prevNum g0 : Nat) (cb : σ)
    (totalArg : Nat) (reset : Bool) (n : Nat) :
    let s := LS.runN cfg h n (LS.setup prevNum g0 cb totalArg reset)
    let start := if reset then 0 else prevNum
    stepNums s.trace = arith (start + cfg.nEnvs) cfg.nEnvs (s.g - g0) ∧
      s.num = start + cfg.nEnvs * (s.g - g0) ∧ g0 ≤ s.g := by
  have hi := Lemmas.inv_runN cfg h g0 (if reset then 0 else prevNum) n _
    (Lemmas.inv_setup cfg.nEnvs prevNum g0 cb totalArg reset)
  exact ⟨hi.steps, hi.lin, hi.ge⟩

/-- **A step event answering `False` stops training before any further environment step**: from any
state inside a rollout, if the callback answers `False` to the step event of the next environment
step, then after that transition the loop makes exactly one more call — `trainingEnd` — and the
environment is never stepped again, however long the machine keeps running. -/
theorem stop_is_immediate {σ : Type} (cfg : Cfg) (h : σ → Call → σ × Bool) (s : LS σ) (collected episodes : Nat)
    (hpc : s.pc = .inRollout collected episodes) (hmore : cfg.kind.more collected episodes = true)
    (hfalse : (h (h s.cb (.updateLocals (s.g + 1))).1 (.step (s.num + cfg.nEnvs))).2 = false) (m : Nat) :
    let s1 := s.next cfg h
    let s2 := LS.runN cfg h (m + 1) s1
    s1.pc = .finish ∧ s1.g = s.g + 1 ∧
      s1.trace = s.trace ++ [(.updateLocals (s.g + 1), (h s.cb (.updateLocals (s.g + 1))).2),
                              (.step (s.num + cfg.nEnvs), false)] ∧
      s2.pc = .done ∧ s2.g = s.g + 1 ∧ s2.num = s.num + cfg.nEnvs ∧
      s2.trace = s1.trace ++ [(.trainingEnd, (h s1.cb .trainingEnd).2)] := by
  have e1 : (s.next cfg h).pc = .finish ∧ (s.next cfg h).g = s.g + 1 ∧ (s.next cfg h).num = s.num + cfg.nEnvs ∧
      (s.next cfg h).trace = s.trace ++ [(.updateLocals (s.g + 1), (h s.cb (.updateLocals (s.g + 1))).2),
                              (.step (s.num + cfg.nEnvs), false)] := by
    unfold LS.next
    simp [hpc, hmore, LS.invoke, hfalse]
  obtain ⟨a1, a2, a3, a4⟩ := e1
  have e2 := Lemmas.next_finish cfg h (s.next cfg h) a1
  have e3 : LS.runN cfg h (m + 1) (s.next cfg h) = (s.next cfg h).next cfg h := by
    simp only [LS.runN]
    exact Lemmas.runN_done cfg h m _ (by rw [e2])
  refine ⟨a1, a2, a4, ?_, ?_, ?_, ?_⟩ <;> rw [e3, e2] <;> simp [a2, a3]

/-- **Training end is reached, once** (rollouts counted in steps — on-policy `n_steps = k`, off-policy
`train_freq = (k, "step")`; `k ≥ 1`, `n_envs ≥ 1`): whatever the callback answers, `learn(total)` finishes
within `3 + (k + 3) · total` control-flow steps, and then the protocol monitor is in its final state, i.e.
the trace ends with the one and only `trainingEnd`. (With episode-counted rollouts termination depends on
the environment ending episodes; the protocol theorems above do not need it.) -/
theorem learn_terminates {σ : Type} (cfg : Cfg) (h : σ → Call → σ × Bool) (k : Nat) (hk : 0 < k)
    (hd : 0 < cfg.nEnvs) (hkind : cfg.kind = .steps k) (prevNum g0 : Nat) (cb : σ) (totalArg : Nat) (reset : Bool) :
    let s := LS.runN cfg h (3 + (k + 3) * totalArg) (LS.setup prevNum g0 cb totalArg reset)
    s.pc = .done ∧ (P.run cfg.nEnvs g0 s.trace).st = .final := by
  have h1 : (LS.runN cfg h (3 + (k + 3) * totalArg) (LS.setup prevNum g0 cb totalArg reset)).pc = .done :=
    Lemmas.runN_terminates cfg h k hk hd hkind _ _ (by cases reset <;> simp [Lemmas.phi, LS.setup])
  exact ⟨h1, (protocol_accepted cfg h prevNum g0 cb totalArg reset _).2.2.2 h1⟩

/-! ### The callback tree -/

/-- **CallbackList forwards everything, to every child, whatever the siblings answer**: a user
callback sitting anywhere below nested `CallbackList`s (path `p` through lists only, any sibling
sub-trees — event callbacks, evaluations, callbacks that answer `False` —, identifiers distinct)
records, for *every* sequence of entry-point calls, exactly what it would record if it were the root
callback itself: same events, same `n_calls`, `num_timesteps`, `locals`, in the same order. -/
theorem list_forwards_all (dones : Dones) (t : Cb) (x : Ext) (p : List Nat) (id : Nat) (st : List Nat)
    (nc nt loc : Nat) (cs : List Call) (hids : t.ids.Nodup) (hp : subAt p t = some (.leaf id st nc nt loc)) :
    proj id (Cb.events dones t x cs) = Cb.events dones (.leaf id st nc nt loc) x cs := by
  rw [Lemmas.events_eq_evsOf, Lemmas.events_eq_evsOf]
  exact Lemmas.evsOf_under_lists dones id st cs p t x nc nt loc hids hp

/-- **Top-level grammar**: in a whole `learn()` (any algorithm machine, configuration, budget, reset
flag, fuel), with any callback tree, a user callback reached through lists only records exactly the
events of a root callback fed with the calls of the loop's trace — and that trace obeys the protocol
(`protocol_accepted`, `one_step_event_per_env_step`). -/
theorem top_level_grammar (cfg : Cfg) (fuel prevNum g0 : Nat) (r : Run) (totalArg : Nat) (reset : Bool)
    (p : List Nat) (id : Nat) (st : List Nat) (nc nt loc : Nat)
    (hids : r.cb.ids.Nodup) (hp : subAt p r.cb = some (.leaf id st nc nt loc)) :
    let s := learn cfg fuel prevNum g0 r totalArg reset
    proj id s.cb.evs = Cb.events cfg.dones (.leaf id st nc nt loc) r.ext (s.trace.map (·.1)) ∧
      (P.run cfg.nEnvs g0 s.trace).st ≠ .reject := by
  refine ⟨?_, ?_⟩
  · rw [Lemmas.learn_evs, Lemmas.events_eq_evsOf]
    exact Lemmas.evsOf_under_lists cfg.dones id st _ p r.cb r.ext nc nt loc hids hp
  · exact (protocol_accepted cfg (treeHandler cfg.dones) prevNum g0 { r with evs := [] } totalArg reset fuel).1

/-- **The answer of `on_step` is the AND of all answers given below** (no short-circuit in lists,
event callbacks hand their child's answer up, the evaluation callback hands up new-best ∧ after-eval):
for every tree, `on_step` answers `False` iff some callback that was reached in this very call
answered `False`. In particular a `False` from any depth reaches the training loop. -/
theorem stop_from_any_depth (dones : Dones) (t : Cb) (x : Ext) (num : Nat) :
    (t.call dones (.step num) x).ok = (t.call dones (.step num) x).evs.all (·.ret) :=
  Lemmas.step_ok dones num t x

/-- **A `False` from any node at any depth ends the `learn()`**: composition of the two facts above for a
callback tree driven by the loop machine. If, at the step event of the next environment step, *any*
callback reached in the tree (a leaf below lists, the child of an `EveryNTimesteps` at its trigger, an
on-new-best or after-eval child, a `StopTrainingOnMaxEpisodes`) answers `False`, then the loop goes
straight to training end: exactly one more call is made and the environment is never stepped again. -/
theorem false_anywhere_stops_learn (cfg : Cfg) (s : LS Run) (collected episodes : Nat)
    (hpc : s.pc = .inRollout collected episodes) (hmore : cfg.kind.more collected episodes = true)
    (e : Event)
    (he : e ∈ ((s.cb.feed cfg.dones (.updateLocals (s.g + 1))).1.cb.call cfg.dones (.step (s.num + cfg.nEnvs))
      (s.cb.feed cfg.dones (.updateLocals (s.g + 1))).1.ext).evs)
    (hret : e.ret = false) (m : Nat) :
    let s1 := s.next cfg (treeHandler cfg.dones)
    let s2 := LS.runN cfg (treeHandler cfg.dones) (m + 1) s1
    s1.pc = .finish ∧ s2.pc = .done ∧ s2.g = s.g + 1 ∧
      s2.trace = s1.trace ++ [(.trainingEnd, (treeHandler cfg.dones s1.cb .trainingEnd).2)] := by
  have hfalse : (treeHandler cfg.dones (treeHandler cfg.dones s.cb (.updateLocals (s.g + 1))).1
      (.step (s.num + cfg.nEnvs))).2 = false := by
    simp only [treeHandler, Run.feed]
    rw [Lemmas.step_ok]
    apply Bool.eq_false_iff.mpr
    intro hall
    have := List.all_eq_true.mp hall e (by simpa [Run.feed] using he)
    simp [hret] at this
  have h := stop_is_immediate cfg (treeHandler cfg.dones) s collected episodes hpc hmore hfalse m
  exact ⟨h.1, h.2.2.2.1, h.2.2.2.2.1, h.2.2.2.2.2.2⟩

/-- **Siblings later in the list still see the step in which an earlier one asked to stop**:
`CallbackList.on_step` calls every child and ANDs. -/
theorem list_no_short_circuit (dones : Dones) (id nc nt : Nat) (t : Cb) (ts : List Cb) (x : Ext) (num : Nat) :
    ((Cb.list id nc nt (t :: ts)).call dones (.step num) x).evs =
      (t.call dones (.step num) x).evs ++
        (Cb.callL dones (.step num) ts (t.call dones (.step num) x).ext).evs ∧
    ((Cb.list id nc nt (t :: ts)).call dones (.step num) x).ok =
      ((t.call dones (.step num) x).ok && (Cb.callL dones (.step num) ts (t.call dones (.step num) x).ext).ok) := by
  simp [Cb.call, Cb.callL]

/-- **Event callbacks: the child sees the trigger only.** `EveryNTimesteps` forwards training-start
and locals, never rollout-start / rollout-end / training-end, and calls its child's `on_step` exactly
when `num_timesteps - last_time_trigger ≥ n_steps`, handing the child's answer up (`x.setP none`: the child's
`parent` is this callback, which has no `best_mean_reward`). -/
theorem event_child_sees_trigger_only (dones : Dones) (id n last nc nt : Nat) (ch : Cb) (x : Ext) (num : Nat) :
    ((Cb.everyN id n last nc nt ch).call dones .rolloutStart x).evs = [] ∧
    ((Cb.everyN id n last nc nt ch).call dones .rolloutEnd x).evs = [] ∧
    ((Cb.everyN id n last nc nt ch).call dones .trainingEnd x).evs = [] ∧
    ((Cb.everyN id n last nc nt ch).call dones (.trainingStart num) x).evs = (ch.call dones (.trainingStart num) x).evs ∧
    ((Cb.everyN id n last nc nt ch).call dones (.step num) x).evs =
      (if last + n ≤ num then (ch.call dones (.step num) (x.setP none)).evs else []) ∧
    ((Cb.everyN id n last nc nt ch).call dones (.step num) x).ok =
      (if last + n ≤ num then (ch.call dones (.step num) (x.setP none)).ok else true) := by
  simp only [Cb.call, everyNDue]
  by_cases h : last + n ≤ num <;> simp [h]

/-- **Checkpoint cadence**: over any sequence of calls (any number of `learn`s, resets, rollouts), a
`CheckpointCallback(save_freq = f)` saves exactly at its `i`-th `on_step` for the `i` that `f`
divides — `i` = `n_calls`, which keeps counting across `learn` calls — and names the file by the
`num_timesteps` of that very step. -/
theorem checkpoint_cadence (dones : Dones) (id f nc nt : Nat) (x : Ext) (cs : List Call) :
    Cb.events dones (.checkpoint id f nc nt) x cs = everyKthCall id .save f nc (callNums cs) := by
  rw [Lemmas.events_eq_evsOf]; exact Lemmas.checkpoint_evs dones id f cs nc nt x

/-- **How many checkpoints a history contains**: over any sequence of calls, a `CheckpointCallback(save_freq = f)` whose call
counter stood at `n_calls₀` saves `⌊(n_calls₀ + K)/f⌋ − ⌊n_calls₀/f⌋` times, `K` the number of `on_step` calls it received —
whatever `learn()` calls, resets and rollouts the history is cut into. -/
theorem checkpoint_count (dones : Dones) (id f nc nt : Nat) (x : Ext) (cs : List Call) :
    (Cb.events dones (.checkpoint id f nc nt) x cs).length = (nc + (callNums cs).length) / f - nc / f := by
  rw [checkpoint_cadence]; exact Lemmas.everyKthCall_length id .save f nc (callNums cs)

/-- **Evaluation cadence**: an `EvalCallback(eval_freq = f)` with any children evaluates exactly at its
`i`-th `on_step` with `f ∣ i` (`f = 0`: never), whatever its children do or answer. -/
theorem eval_cadence (dones : Dones) (id f nc nt : Nat) (best : Option Rat) (onBest after : Cb) (x : Ext)
    (cs : List Call) (h1 : id ∉ onBest.ids) (h2 : id ∉ after.ids) :
    eventsOfKind id .evalRun (Cb.events dones (.eval id f nc nt best onBest after) x cs) =
      everyKthCall id .evalRun f nc (callNums cs) := by
  rw [Lemmas.events_eq_evsOf]; exact Lemmas.eval_evs dones id f cs nc nt best onBest after x h1 h2

/-- **How many evaluations a history contains**: `⌊(n_calls₀ + K)/f⌋ − ⌊n_calls₀/f⌋`, whatever the children do or answer. -/
theorem eval_count (dones : Dones) (id f nc nt : Nat) (best : Option Rat) (onBest after : Cb) (x : Ext)
    (cs : List Call) (h1 : id ∉ onBest.ids) (h2 : id ∉ after.ids) :
    (eventsOfKind id .evalRun (Cb.events dones (.eval id f nc nt best onBest after) x cs)).length =
      (nc + (callNums cs).length) / f - nc / f := by
  rw [eval_cadence dones id f nc nt best onBest after x cs h1 h2]
  exact Lemmas.everyKthCall_length id .evalRun f nc (callNums cs)

theorem eval_freq_zero_never (id nc : Nat) (nums : List Nat) : everyKthCall id .evalRun 0 nc nums = [] := by
  simp only [everyKthCall, List.map_eq_nil_iff, List.filter_eq_nil_iff]
  intro p hp
  have := List.le_snd_of_mem_zipIdx hp
  simp; omega

/-- **Children of the evaluation callback**: at an evaluation with mean reward `m`, the on-new-best
child is stepped iff `m` beats the best so far (then `best := m`), *before* the after-eval child; the
after-eval child is stepped iff the on-new-best child did not answer `False`; the answer is the AND. Both
children are stepped *after* `best_mean_reward` was updated (`setP`: what `self.parent.best_mean_reward` reads). -/
theorem eval_children (dones : Dones) (id f nc nt : Nat) (best : Option Rat) (onBest after : Cb) (x : Ext) (num : Nat)
    (hdue : evalDue f (nc + 1) = true) :
    let m := x.pop.1
    let r := (Cb.eval id f nc nt best onBest after).call dones (.step num) x
    let rb := onBest.call dones (.step num) (x.pop.2.setP (some (some m)))
    (isNewBest best m = true → rb.ok = true →
      r.evs = ⟨id, .evalRun, nc + 1, num, 0, true⟩ :: (rb.evs ++ (after.call dones (.step num) rb.ext).evs) ∧
      r.ok = (after.call dones (.step num) rb.ext).ok) ∧
    (isNewBest best m = true → rb.ok = false →
      r.evs = ⟨id, .evalRun, nc + 1, num, 0, true⟩ :: rb.evs ∧ r.ok = false) ∧
    (isNewBest best m = false →
      r.evs = ⟨id, .evalRun, nc + 1, num, 0, true⟩ :: (after.call dones (.step num) (x.pop.2.setP (some best))).evs ∧
      r.ok = (after.call dones (.step num) (x.pop.2.setP (some best))).ok) ∧
    r.cb.bests.head? = some (id, if isNewBest best m then some m else best) := by
  simp only [Cb.call, hdue, if_true]
  by_cases hb : isNewBest best x.pop.1 = true
  · by_cases ho : (onBest.call dones (.step num) (x.pop.2.setP (some (some x.pop.1)))).ok = true <;>
      simp [hb, ho, Cb.bests]
  · simp [hb, Cb.bests]

/-- **The evaluation callback forwards training-start and locals to both children** (after-eval child
first, then the on-new-best child), and — being an event callback — forwards neither rollout
start/end nor training end. (Full statement since the fix `4379697`; before it the on-new-best child
received neither event, finding K-C13-b.) -/
theorem eval_forwards (dones : Dones) (id f nc nt : Nat) (best : Option Rat) (onBest after : Cb) (x : Ext)
    (c : Call) (hc : (∃ n, c = .trainingStart n) ∨ (∃ g, c = .updateLocals g)) :
    ((Cb.eval id f nc nt best onBest after).call dones c x).evs =
        (after.call dones c x).evs ++ (onBest.call dones c (after.call dones c x).ext).evs ∧
    ((Cb.eval id f nc nt best onBest after).call dones .rolloutStart x).evs = [] ∧
    ((Cb.eval id f nc nt best onBest after).call dones .rolloutEnd x).evs = [] ∧
    ((Cb.eval id f nc nt best onBest after).call dones .trainingEnd x).evs = [] := by
  rcases hc with ⟨n, rfl⟩ | ⟨g, rfl⟩ <;> simp [Cb.call]

/-! ### EveryNTimesteps cadence, including `learn()` calls that reset the counter -/

/-- **EveryNTimesteps cadence in one `learn()`**, for every period `n ≥ 1`, every `n_envs = d`, every
number of steps `k`, every earlier history (`last` = whatever `last_time_trigger` an earlier `learn`
left behind) and every start counter `num0` for which the trigger is not already overdue
(`num0 < min last num0 + n` — true after every reset, and true when the callback saw every step of
the previous call): with `a = min last num0` the re-armed origin, the trigger times `T` the child
records satisfy `n ≤ t₁ - a < n + d`, `n ≤ tᵢ₊₁ - tᵢ < n + d`; no trigger is missing at the end
(`end < lastTrigger + n`); and the node's `last_time_trigger` is the last trigger (or `a`). -/
theorem everyN_cadence (dones : Dones) (id n d cid : Nat) (st : List Nat) (hn : 0 < n)
    (k last num0 g0 nc nt lnc lnt lloc : Nat) (x : Ext) (hno : num0 < min last num0 + n) :
    let X := Cb.everyN id n last nc nt (.leaf cid st lnc lnt lloc)
    let calls := Call.trainingStart num0 :: segmentCalls num0 d g0 k
    let T := stepTimes cid (Cb.events dones X x calls)
    let a := min last num0
    gapsWithin n (n + d) a T ∧ T.getLastD a ≤ num0 + k * d ∧ num0 + k * d < T.getLastD a + n ∧
      ∃ nc' nt' lnc' lnt' lloc', (Cb.after dones X x calls).1 =
        Cb.everyN id n (T.getLastD a) nc' nt' (.leaf cid st lnc' lnt' lloc') := by
  simp only [Lemmas.events_eq_evsOf]
  exact Lemmas.everyN_learn dones id n d cid st hn k last num0 g0 nc nt lnc lnt lloc x hno

/-- **After `learn(reset_num_timesteps=True)`** the cadence starts afresh from 0 *whatever* the stale
`last_time_trigger` is (this is the statement that was false before the fix `db66c67`): first trigger
at the first step with `num_timesteps ≥ n`, then every `n` (to the granularity `d`), none missing. -/
theorem everyN_cadence_after_reset (dones : Dones) (id n d cid : Nat) (st : List Nat) (hn : 0 < n)
    (k last g0 nc nt lnc lnt lloc : Nat) (x : Ext) :
    let X := Cb.everyN id n last nc nt (.leaf cid st lnc lnt lloc)
    let T := stepTimes cid (Cb.events dones X x (Call.trainingStart 0 :: segmentCalls 0 d g0 k))
    gapsWithin n (n + d) 0 T ∧ k * d < T.getLastD 0 + n := by
  have h := everyN_cadence dones id n d cid st hn k last 0 g0 nc nt lnc lnt lloc x (by simp; omega)
  simp only [Nat.min_zero, Nat.zero_add] at h
  exact ⟨h.1, h.2.2.1⟩

/-- **Two consecutive `learn()` calls** on a fresh `EveryNTimesteps`: the first from 0 with `k1` steps,
the second either resetting the counter or continuing from `k1·d`, with `k2` steps. In the second call
the triggers again keep the cadence — measured from 0 after a reset, from the last trigger of the
first call otherwise — and none is missing. -/
theorem everyN_second_learn (dones : Dones) (id n d cid : Nat) (st : List Nat) (hn : 0 < n)
    (k1 k2 g0 : Nat) (reset : Bool) (x : Ext) :
    let X := Cb.everyN id n 0 0 0 (.leaf cid st 0 0 0)
    let calls1 := Call.trainingStart 0 :: segmentCalls 0 d g0 k1
    let T1 := stepTimes cid (Cb.events dones X x calls1)
    let X2 := (Cb.after dones X x calls1).1
    let x2 := (Cb.after dones X x calls1).2
    let num0 := if reset then 0 else k1 * d
    let T2 := stepTimes cid (Cb.events dones X2 x2 (Call.trainingStart num0 :: segmentCalls num0 d (g0 + k1) k2))
    let a := if reset then 0 else T1.getLastD 0
    gapsWithin n (n + d) 0 T1 ∧ gapsWithin n (n + d) a T2 ∧ num0 + k2 * d < T2.getLastD a + n := by
  have h1 := everyN_cadence dones id n d cid st hn k1 0 0 g0 0 0 0 0 0 x (by simp; omega)
  simp only [Nat.zero_add, Nat.min_self] at h1
  obtain ⟨g1, g2, g3, nc', nt', lnc', lnt', lloc', g4⟩ := h1
  refine ⟨g1, ?_⟩
  simp only [g4]
  generalize stepTimes cid (Cb.events dones (Cb.everyN id n 0 0 0 (.leaf cid st 0 0 0)) x
    (Call.trainingStart 0 :: segmentCalls 0 d g0 k1)) = T1 at g2 g3 ⊢
  generalize (Cb.after dones (Cb.everyN id n 0 0 0 (.leaf cid st 0 0 0)) x
    (Call.trainingStart 0 :: segmentCalls 0 d g0 k1)).2 = x2
  cases reset with
  | true =>
    have h2 := everyN_cadence dones id n d cid st hn k2 (T1.getLastD 0) 0 (g0 + k1) nc' nt' lnc' lnt' lloc' x2
      (by simp; omega)
    simp only [Nat.min_zero, Nat.zero_add] at h2
    exact ⟨h2.1, by simpa using h2.2.2.1⟩
  | false =>
    have h2 := everyN_cadence dones id n d cid st hn k2 (T1.getLastD 0) (k1 * d) (g0 + k1) nc' nt' lnc' lnt' lloc' x2
      (by rw [Nat.min_eq_left g2]; exact g3)
    rw [Nat.min_eq_left g2] at h2
    exact ⟨h2.1, by simpa using h2.2.2.1⟩

/-! ### The on-new-best child after the fix of K-C13-b (commit 4379697) -/

/-- **An `EveryNTimesteps` used as `callback_on_new_best` is re-armed by a `learn()` that resets the
counter**: for every stale `last_time_trigger`, after the evaluation callback received
`trainingStart 0` the inner node's `last_time_trigger` is `0` again. -/
theorem everyN_under_new_best_rearmed (dones : Dones) (id f nc nt : Nat) (best : Option Rat) (after : Cb) (x : Ext)
    (eid n last enc ent : Nat) (ch : Cb) :
    ∃ nt' enc' ent' ch' after', ((Cb.eval id f nc nt best (.everyN eid n last enc ent ch) after).call dones
        (.trainingStart 0) x).cb = .eval id f nc nt' best (.everyN eid n 0 enc' ent' ch') after' := by
  exact ⟨0, enc, 0, (ch.call dones (.trainingStart 0) (after.call dones (.trainingStart 0) x).ext).cb,
    (after.call dones (.trainingStart 0) x).cb, by simp [Cb.call]⟩

/-- **A user callback placed as `callback_on_new_best` reads the locals of the very step of the
evaluation**: after `update_locals g` reached the evaluation callback, the step event the child records at
the next new-best evaluation carries `loc = g`. -/
theorem new_best_child_sees_step_locals (dones : Dones) (id nc nt : Nat) (after : Cb) (x : Ext)
    (cid : Nat) (st : List Nat) (lnc lnt lloc g num : Nat) (m : Rat) (rest : List Rat)
    (hafter : after = .absent) (hx : x.evals = m :: rest) :
    let t1 := ((Cb.eval id 1 nc nt none (.leaf cid st lnc lnt lloc) after).call dones (.updateLocals g) x)
    (t1.cb.call dones (.step num) t1.ext).evs =
      [⟨id, .evalRun, nc + 1, num, 0, true⟩, ⟨cid, .step, lnc + 1, num, g, !st.contains (lnc + 1)⟩] := by
  subst hafter
  have hpop : x.pop.1 = m := by simp [Ext.pop, hx]
  simp [Cb.call, evalDue, isNewBest]
  cases h : !st.contains (lnc + 1) <;> simp_all [Nat.mod_one]

/-! ### Function callbacks, `callback=None`, and the `StopTraining…` callbacks -/

/-- **A function callback is a user callback that only sees step events** (`ConvertCallback(f)`): for every
call sequence its events are the `step` events of a recording leaf with the same stop points — same
invocation count, same `num_timesteps`, same `locals`, same answers. -/
theorem convert_callback_is_leaf (dones : Dones) (id : Nat) (st : List Nat) (n nt loc : Nat) (x : Ext) (cs : List Call) :
    Cb.events dones (.fn id st n n nt loc) x cs =
      (Cb.events dones (.leaf id st n nt loc) x cs).filter (fun e => e.kind == .step) := by
  rw [Lemmas.events_eq_evsOf, Lemmas.events_eq_evsOf]
  exact Lemmas.fn_is_leaf dones id st cs n nt loc x

/-- **`callback=None`** (wrapped into `ConvertCallback(None)`): never asks to stop, records nothing. -/
theorem no_callback_never_stops (dones : Dones) (c : Call) (x : Ext) :
    (Cb.absent.call dones c x).ok = true ∧ (Cb.absent.call dones c x).evs = [] := by
  simp [Cb.call]

/-- **`StopTrainingOnRewardThreshold` as `callback_on_new_best`**: at an evaluation with mean reward `m`
that is a new best, the child is stepped, reads the *updated* `best_mean_reward = m`, and training continues
iff `m < reward_threshold` (and the after-eval child, which is then still called, agrees); when the evaluation
is not a new best the child is not consulted at all. -/
theorem reward_threshold_stops_iff (dones : Dones) (id f nc nt : Nat) (best : Option Rat) (tid : Nat) (thr : Rat)
    (tnc tnt : Nat) (after : Cb) (x : Ext) (num : Nat) (hdue : evalDue f (nc + 1) = true) :
    let m := x.pop.1
    let r := (Cb.eval id f nc nt best (.rewardThr tid thr tnc tnt) after).call dones (.step num) x
    (isNewBest best m = true →
      (r.ok = true ↔ m < thr ∧ (after.call dones (.step num) (x.pop.2.setP (some (some m)))).ok = true) ∧
      (⟨tid, .step, tnc + 1, num, 0, decide (m < thr)⟩ : Event) ∈ r.evs) ∧
    (isNewBest best m = false → r.ok = (after.call dones (.step num) (x.pop.2.setP (some best))).ok) := by
  simp only [Cb.call, hdue, if_true]
  by_cases hb : isNewBest best x.pop.1 = true
  · by_cases ht : x.pop.1 < thr <;> simp [hb, ht, belowThr, Ext.setP]
  · simp [hb]

/-- **`StopTrainingOnRewardThreshold` as `callback_after_eval`** (no on-new-best child): it is consulted at every
evaluation and training continues iff the best mean reward so far — including this evaluation — is below the
threshold. -/
theorem reward_threshold_after_eval (dones : Dones) (id f nc nt : Nat) (best : Option Rat) (tid : Nat) (thr : Rat)
    (tnc tnt : Nat) (x : Ext) (num : Nat) (hdue : evalDue f (nc + 1) = true) :
    ((Cb.eval id f nc nt best .absent (.rewardThr tid thr tnc tnt)).call dones (.step num) x).ok =
      belowThr (if isNewBest best x.pop.1 then some x.pop.1 else best) thr := by
  simp only [Cb.call, hdue, if_true]
  by_cases hb : isNewBest best x.pop.1 = true <;> simp [hb, Ext.setP]

/-- **CallbackLists hand the `parent` of their position down**: what the `StopTrainingOn…` children read is the
`best_mean_reward` of the EvalCallback above the lists, at any nesting depth and from the first `learn()` on
(full statement since the fix `b8355fc`; before it a list nested directly inside a list handed `parent` to
its children only from the second `learn()` on — finding K-C13-c). -/
theorem nested_lists_pass_parent (dones : Dones) (i1 a1 b1 i2 a2 b2 tid : Nat) (thr : Rat) (tnc tnt : Nat) (x : Ext) (num : Nat) :
    let r := (Cb.list i1 a1 b1 [.list i2 a2 b2 [.rewardThr tid thr tnc tnt]]).call dones (.step num) x
    r.ok = belowThr (x.pbest.getD none) thr ∧ r.fail = x.pbest.isNone := by
  simp [Cb.call, Cb.callL]

/-- **`StopTrainingOnNoModelImprovement`**, for every history of evaluations: fed the sequence `bs` of its
parent's `best_mean_reward` values (one per call), a fresh callback answers `False` at a call exactly when the
trailing run of calls that were counted (`n_calls > min_evals`) and brought no improvement over the value seen at
the previous call is longer than `max_no_improvement_evals` (`noImpSpec`, `streak`). -/
theorem no_improvement_stops_after (dones : Dones) (id maxNo minEvals : Nat) (x : Ext) (bs : List (Option Rat)) :
    feedBests dones (.noImprove id maxNo minEvals none 0 0 0) x bs = noImpSpec maxNo minEvals [] 0 none bs :=
  Lemmas.noImp_feed dones id maxNo minEvals bs [] none 0 0 0 x (by simp [streak]) (fun _ => rfl)

/-- **`StopTrainingOnMaxEpisodes` with any number of environments**: over `k` vectorised steps (each preceded
by the `update_locals` of that step), its `i`-th answer is `True` iff the episodes finished so far in *all*
sub-environments — `n_episodes` before plus the `dones` of steps `g0+1 … g0+i` — are fewer than
`max_episodes · n_envs`; so it stops at the first step where that count reaches `max_episodes · n_envs`. -/
theorem max_episodes_stops_at (dones : Dones) (id M n d : Nat) (k num g0 nEp nc nt loc : Nat) (x : Ext) :
    Cb.events dones (.maxEp id M n nEp nc nt loc) x (segmentCalls num d g0 k) =
      (List.range k).map (fun i => (⟨id, .step, nc + i + 1, num + (i + 1) * d, g0 + i + 1,
        decide (nEp + cumDones dones g0 (i + 1) < M * n)⟩ : Event)) := by
  rw [Lemmas.events_eq_evsOf]
  exact Lemmas.maxEp_segment dones id M n d k num g0 nEp nc nt loc x

/-! ### Non-vacuity: concrete, non-trivial instances -/

/-- reward threshold 2 as on-new-best child: means 1, 3 → continues at the first evaluation, stops at the second -/
example : Cb.events (fun _ => 0) (.eval 0 1 0 0 none (.rewardThr 1 2 0 0) .absent) { evals := [1, 3] }
    [.step 1, .step 2] =
    [⟨0, .evalRun, 1, 1, 0, true⟩, ⟨1, .step, 1, 1, 0, true⟩, ⟨0, .evalRun, 2, 2, 0, true⟩, ⟨1, .step, 2, 2, 0, false⟩] := by
  decide

/-- no-improvement (max 1, min 1) fed parent bests 1, 1, 1, 2, 2, 2: stops at the 3rd call and again at the 6th -/
example : feedBests (fun _ => 0) (.noImprove 0 1 1 none 0 0 0) { evals := [] }
    [some 1, some 1, some 1, some 2, some 2, some 2] = [true, true, false, true, true, false] := by decide

/-- max-episodes 2 with 3 envs (budget 6): dones per step 2, 3, 1, 0 → answers True, True, False, False -/
example : (Cb.events (fun g => [0, 2, 3, 1, 0].getD g 0) (.maxEp 0 2 3 0 0 0 0) { evals := [] }
    (segmentCalls 0 3 0 4)).map (·.ret) = [true, true, false, false] := by decide

/-- a bare function passed to two `learn` calls: a fresh ConvertCallback each time, the function's own count goes on -/
example : ((Cb.fn 0 [] 3 3 9 3).freshRoot) = .fn 0 [] 3 0 0 0 := rfl


/-- a nested tree with distinct ids and a leaf below two lists -/
example : (Cb.list 0 0 0 [.leaf 1 [2] 0 0 0, .list 2 0 0 [.everyN 3 2 0 0 0 (.leaf 4 [] 0 0 0), .leaf 5 [] 0 0 0]]).ids.Nodup ∧
    subAt [1, 1] (Cb.list 0 0 0 [.leaf 1 [2] 0 0 0, .list 2 0 0 [.everyN 3 2 0 0 0 (.leaf 4 [] 0 0 0), .leaf 5 [] 0 0 0]]) =
      some (.leaf 5 [] 0 0 0) := ⟨by decide, rfl⟩

/-- a whole on-policy `learn(5)` with 2 envs, rollouts of 2 steps, in which the first leaf stops at its
2nd call: the later sibling still sees that step, no rollout end, training end follows -/
example :
    (learn { nEnvs := 2, onPolicy := true, kind := .steps 2, dones := fun _ => 0 } 50 0 0
      { cb := .list 0 0 0 [.leaf 1 [2] 0 0 0, .leaf 2 [] 0 0 0], ext := { evals := [] } } 5 true).trace =
    [(.trainingStart 0, true), (.rolloutStart, true), (.updateLocals 1, true), (.step 2, true),
     (.updateLocals 2, true), (.step 4, false), (.trainingEnd, true)] := by decide

example :
    proj 2 (learn { nEnvs := 2, onPolicy := true, kind := .steps 2, dones := fun _ => 0 } 50 0 0
      { cb := .list 0 0 0 [.leaf 1 [2] 0 0 0, .leaf 2 [] 0 0 0], ext := { evals := [] } } 5 true).cb.evs =
    [⟨2, .trainingStart, 0, 0, 0, true⟩, ⟨2, .rolloutStart, 0, 0, 0, true⟩, ⟨2, .step, 1, 2, 1, true⟩,
     ⟨2, .step, 2, 4, 2, true⟩, ⟨2, .trainingEnd, 2, 4, 2, true⟩] := by decide

/-- `stop_is_immediate`'s hypotheses are met by a state inside a rollout with a callback that answers False -/
example : ∃ s : LS Nat, s.pc = .inRollout 0 0 ∧ (RolloutKind.steps 3).more 0 0 = true ∧
    ((fun (c : Nat) (_ : Call) => (c + 1, false)) ((fun (c : Nat) (_ : Call) => (c + 1, false)) s.cb (.updateLocals (s.g + 1))).1
      (.step (s.num + 1))).2 = false :=
  ⟨{ pc := .inRollout 0 0, num := 0, total := 9, g := 0, cb := 0 }, rfl, by decide, rfl⟩

/-- `false_anywhere_stops_learn`'s hypotheses: a leaf two levels down (child of an EveryNTimesteps inside a list)
answers False at the step event of the next environment step (state: num = 0, g = 0, n_envs = 2) -/
example :
    (⟨3, .step, 1, 2, 1, false⟩ : Event) ∈
      ((Run.feed (fun _ => 0)
          { cb := .list 0 0 0 [.leaf 1 [] 0 0 0, .everyN 2 2 0 0 0 (.leaf 3 [1] 0 0 0)], ext := { evals := [] } }
          (.updateLocals (0 + 1))).1.cb.call (fun _ => 0) (.step (0 + 2))
        (Run.feed (fun _ => 0)
          { cb := .list 0 0 0 [.leaf 1 [] 0 0 0, .everyN 2 2 0 0 0 (.leaf 3 [1] 0 0 0)], ext := { evals := [] } }
          (.updateLocals (0 + 1))).1.ext).evs := by decide

/-- EveryNTimesteps(3) with 2 envs: a stale trigger time 100 and a reset; triggers at 4, 8 (gaps in [3,5)) -/
example : stepTimes 1 (Cb.events (fun _ => 0) (.everyN 0 3 100 7 100 (.leaf 1 [] 0 0 0)) { evals := [] }
    (Call.trainingStart 0 :: segmentCalls 0 2 0 5)) = [4, 8] := by decide

example : gapsWithin 3 (3 + 2) 0 [4, 8] := by simp [gapsWithin]

/-- the not-overdue hypothesis of `everyN_cadence` on a continued call: last trigger 8, counter 10, n = 3 -/
example : (10 : Nat) < min 8 10 + 3 := by decide

/-- checkpoint every 2 calls, counted across two learn calls with a reset in between -/
example : Cb.events (fun _ => 0) (.checkpoint 0 2 0 0) { evals := [] }
    [.trainingStart 0, .step 1, .step 2, .step 3, .trainingEnd, .trainingStart 0, .step 1, .step 2] =
    [⟨0, .save, 2, 2, 0, true⟩, ⟨0, .save, 4, 1, 0, true⟩] := by decide

/-- evaluation every 2nd call: means 1, 3, 2 → new best at the 1st and 2nd evaluation only; on the 2nd the
on-new-best child answers False, so the after-eval child is skipped -/
example : Cb.events (fun _ => 0) (.eval 0 2 0 0 none (.leaf 1 [2] 0 0 0) (.leaf 2 [] 0 0 0)) { evals := [1, 3, 2] }
    [.step 1, .step 2, .step 3, .step 4, .step 5, .step 6] =
    [⟨0, .evalRun, 2, 2, 0, true⟩, ⟨1, .step, 1, 2, 0, true⟩, ⟨2, .step, 1, 2, 0, true⟩,
     ⟨0, .evalRun, 4, 4, 0, true⟩, ⟨1, .step, 2, 4, 0, false⟩,
     ⟨0, .evalRun, 6, 6, 0, true⟩, ⟨2, .step, 2, 6, 0, true⟩] := by decide

/-- `learn_terminates`' hypotheses: an A2C-like configuration (3 envs, rollouts of 5 steps) -/
example : (0 : Nat) < 5 ∧ (0 : Nat) < ({ nEnvs := 3, onPolicy := true, kind := .steps 5, dones := fun _ => 0 } : Cfg).nEnvs := by
  decide

/-- the on-new-best child now sees training start and the locals of the step (compare finding K-C13-b) -/
example : Cb.events (fun _ => 0) (.eval 0 1 0 0 none (.leaf 1 [] 0 0 0) (.leaf 2 [] 0 0 0)) { evals := [1] }
    [.trainingStart 0, .updateLocals 1, .step 1] =
    [⟨2, .trainingStart, 0, 0, 0, true⟩, ⟨1, .trainingStart, 0, 0, 0, true⟩, ⟨0, .evalRun, 1, 1, 0, true⟩,
     ⟨1, .step, 1, 1, 1, true⟩, ⟨2, .step, 1, 1, 1, true⟩] := by decide

/-- StopTrainingOnMaxEpisodes as on-new-best child has `dones` in its locals: the code does not raise -/
example : (Run.feedAll (fun _ => 0) { cb := .eval 0 1 0 0 none (.maxEp 1 2 1 0 0 0 0) .absent, ext := { evals := [1] } }
    [.trainingStart 0, .updateLocals 1, .step 1]).fail = false := by decide

/-- EveryNTimesteps(2) as on-new-best child with a stale trigger time 10: re-armed by the reset, fires at 3 -/
example : stepTimes 2 (Cb.events (fun _ => 0) (.eval 0 1 0 0 none (.everyN 1 2 10 0 0 (.leaf 2 [] 0 0 0)) .absent)
    { evals := [1] } [.trainingStart 0, .updateLocals 1, .step 3]) = [3] := by decide

example : evalDue 2 (3 + 1) = true ∧ (3 : Nat) ∉ (Cb.leaf 1 [] 0 0 0).ids := by decide

end SB3Verif.C13
