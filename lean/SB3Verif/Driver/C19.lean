/-
Driver for C19: prints the mode table and runs the heap machine / value machine of
`SB3Verif.Ownership` on the caller program of every case the harness (`/verif/harness/c19.py`)
executed on the real stable-baselines3 objects.

ops
  {"op":"table"}
      → {"rows":[{cls,call,variant,in_statement,discipline,exception,args:[[name,mode,class]],res:[…]}],
         "layers":[{cls,variant,clean,actions,reset_obs,step_obs,step_rewards,step_dones,step_infos}]}
  {"op":"case","calls":[{"target":T,"args":[[name,C]],"res":[[name,R]]}]}
      T = {"kind":"row","cls":…,"call":…,"variant":…} | {"kind":"stack","base":…,"layers":[{"cls":…,"variant":…}],"call":…}
      C = "clean"|"retained"|"mutated"        R = "fresh"|"retained"|["arg",i]       (measured classes)
      → {"calls":[{"row":[cls,call,variant],"in_statement":b,"exception":b,
                   "args":[[name,tableMode,tableClass,cmp,usedMode]],"res":[…],        cmp = equal|cleaner|worse
                   "discipline_table":b,"discipline_used":b,"twin_differs":b,"changed":[handle]}],
         "discipline":b,"refines":b,"strip_ok":b,"handles":[[h]]}
  {"op":"run","slots":n,"prog":[["new",v]|["write",h,v]|["call",{"args":[mode],"res":[mode]},[h]]]}
      → {"trace":[[v]],"vtrace":[[v]],"stripped_trace":[[v]],"changed":[[step,handle]],"discipline":b,"held":[v]}
-/
import SB3Verif.Driver.Proto
import SB3Verif.Model.ApiModes

open Lean SB3Verif.Proto SB3Verif.Ownership

def argModeStr : ArgMode → String
  | .readOnly => "readOnly"
  | .storedByCopy => "storedByCopy"
  | .retainedDead => "retainedDead"
  | .storedByRef => "storedByRef"
  | .mutated => "mutated"

def resModeJ : ResMode → Json
  | .fresh => strJ "fresh"
  | .freshRetained => strJ "freshRetained"
  | .sharesInternal => strJ "sharesInternal"
  | .sharesArg i => Json.arr #[strJ "sharesArg", natJ i]

def mArgStr : MArg → String
  | .clean => "clean"
  | .retained => "retained"
  | .mutated => "mutated"

def mResJ : MRes → Json
  | .fresh => strJ "fresh"
  | .retained => strJ "retained"
  | .arg i => Json.arr #[strJ "arg", natJ i]

def wresStr : WRes → String
  | .new => "new"
  | .pass => "pass"
  | .passRetained => "passRetained"
  | .internal => "internal"

def parseArgMode (s : String) : Except String ArgMode :=
  match s with
  | "readOnly" => .ok .readOnly
  | "storedByCopy" => .ok .storedByCopy
  | "retainedDead" => .ok .retainedDead
  | "storedByRef" => .ok .storedByRef
  | "mutated" => .ok .mutated
  | _ => .error s!"bad arg mode {s}"

def parseResMode (j : Json) : Except String ResMode :=
  match j.getStr? with
  | .ok "fresh" => .ok .fresh
  | .ok "freshRetained" => .ok .freshRetained
  | .ok "sharesInternal" => .ok .sharesInternal
  | .ok s => .error s!"bad result mode {s}"
  | .error _ =>
    match j.getArr? with
    | .ok #[a, b] => do
      let t ← asStr a
      let i ← asNat b
      if t == "sharesArg" then .ok (.sharesArg i) else .error s!"bad result mode {j.compress}"
    | _ => .error s!"bad result mode {j.compress}"

def parseMArg (j : Json) : Except String MArg := do
  let s ← asStr j
  match s with
  | "clean" => .ok .clean
  | "retained" => .ok .retained
  | "mutated" => .ok .mutated
  | _ => .error s!"bad measured arg class {s}"

def parseMRes (j : Json) : Except String MRes :=
  match j.getStr? with
  | .ok "fresh" => .ok .fresh
  | .ok "retained" => .ok .retained
  | .ok s => .error s!"bad measured result class {s}"
  | .error _ =>
    match j.getArr? with
    | .ok #[a, b] => do
      let t ← asStr a
      let i ← asNat b
      if t == "arg" then .ok (.arg i) else .error s!"bad measured result class {j.compress}"
    | _ => .error s!"bad measured result class {j.compress}"

def isException (r : Row) : Bool := exceptions.contains r.key

def rowJ (r : Row) : Json :=
  objJ [("cls", strJ r.cls), ("call", strJ r.call), ("variant", strJ r.variant), ("in_statement", boolJ r.inStatement),
        ("discipline", boolJ r.sig.discipline), ("exception", boolJ (isException r)),
        ("args", listJ (fun p => Json.arr #[strJ p.1, strJ (argModeStr p.2), strJ (mArgStr p.2.cls)]) r.args),
        ("res", listJ (fun p => Json.arr #[strJ p.1, resModeJ p.2, mResJ p.2.cls]) r.res)]

def layerJ (L : Layer) : Json :=
  objJ [("cls", strJ L.cls), ("variant", strJ L.variant), ("clean", boolJ L.clean), ("actions", strJ (argModeStr L.actions)),
        ("reset_obs", strJ (wresStr L.resetObs)), ("step_obs", strJ (wresStr L.stepObs)),
        ("step_rewards", strJ (wresStr L.stepRewards)), ("step_dones", strJ (wresStr L.stepDones)),
        ("step_infos", strJ (wresStr L.stepInfos))]

def resolveTarget (t : Json) : Except String Row := do
  let kind ← getStr t "kind"
  match kind with
  | "row" =>
    let cls ← getStr t "cls"
    let call ← getStr t "call"
    let variant ← getStr t "variant"
    match findRow cls call variant with
    | some r => return r
    | none => throw s!"no table row {cls}.{call}[{variant}]"
  | "stack" =>
    let base ← getStr t "base"
    let call ← getStr t "call"
    let ls ← getList (fun j => do
      let c ← getStr j "cls"
      let v ← getStr j "variant"
      match findLayer c v with
      | some L => pure L
      | none => throw s!"no table layer {c}[{v}]") t "layers"
    match findRow base call "" with
    | some r =>
      let sr := stackRow r ls call
      return { sr with cls := ls.foldl (fun acc L => acc ++ "+" ++ L.cls ++ (if L.variant == "" then "" else "[" ++ L.variant ++ "]")) base }
    | none => throw s!"no table row {base}.{call}"
  | _ => throw s!"bad target kind {kind}"

structure CallIn where
  row : Row
  margs : List (String × MArg)
  mres : List (String × MRes)

def parseCall (j : Json) : Except String CallIn := do
  let t ← fld j "target"
  let row ← resolveTarget t
  let margs ← getList (fun p => do
    match p.getArr? with
    | .ok #[a, b] => pure ((← asStr a), (← parseMArg b))
    | _ => throw "bad measured arg") j "args"
  let mres ← getList (fun p => do
    match p.getArr? with
    | .ok #[a, b] => pure ((← asStr a), (← parseMRes b))
    | _ => throw "bad measured result") j "res"
  return ⟨row, margs, mres⟩

def lookupMode {μ : Type} (l : List (String × μ)) (name : String) : Except String μ :=
  match l.find? (fun p => p.1 == name) with
  | some p => .ok p.2
  | none => .error s!"part {name} is not in the table row"

def usedSig (c : CallIn) : Except String Sig := do
  let as ← c.margs.mapM (fun p => do
    let t ← lookupMode c.row.args p.1
    pure (refineArg t p.2))
  let rs ← c.mres.mapM (fun p => do
    let t ← lookupMode c.row.res p.1
    pure (refineRes t p.2))
  return ⟨as, rs⟩

def stepC19 (_ : Unit) (j : Json) : Except String (Unit × Json) := do
  let op ← getStr j "op"
  match op with
  | "table" =>
    return ((), objJ [("rows", listJ rowJ apiRows), ("layers", listJ layerJ apiLayers),
                      ("exceptions", listJ (fun k => Json.arr #[strJ k.1, strJ k.2.1, strJ k.2.2]) exceptions)])
  | "case" =>
    let calls ← getList parseCall j "calls"
    let sigs ← calls.mapM usedSig
    for c in calls do
      if c.margs.length > nArgSlots || c.mres.length > nArgSlots then throw "too many arguments / results for the model"
    for sg in sigs do
      for r in sg.res do
        match r with
        | .sharesArg i => if i ≥ sg.args.length then throw "sharesArg index out of range"
        | _ => pure ()
    let (base, twin, idx, handles) := caseProgs sigs
    let s0 := init nSlots
    let sb := run base s0
    let st := run twin s0
    let vb := vrun base (vinit nSlots)
    let changed := libChanged base s0
    let outCalls := (calls.zip (sigs.zip (idx.zip (List.range calls.length)))).map fun (c, sg, stepIdx, i) =>
      let argsJ := (c.margs.zip sg.args).map fun (p, used) =>
        match lookupMode c.row.args p.1 with
        | .ok t => Json.arr #[strJ p.1, strJ (argModeStr t), strJ (mArgStr t.cls), strJ (cmpRank p.2.rank t.cls.rank),
                              strJ (argModeStr used)]
        | .error e => strJ e
      let resJ := (c.mres.zip sg.res).map fun (p, used) =>
        match lookupMode c.row.res p.1 with
        | .ok t =>
          let cmp := if t.cls = p.2 then "equal" else if p.2.rank < t.cls.rank then "cleaner" else "worse"
          Json.arr #[strJ p.1, resModeJ t, mResJ t.cls, strJ cmp, resModeJ used]
        | .error e => strJ e
      objJ [("row", Json.arr #[strJ c.row.cls, strJ c.row.call, strJ c.row.variant]),
            ("in_statement", boolJ c.row.inStatement), ("exception", boolJ (isException c.row)),
            ("args", Json.arr argsJ.toArray), ("res", Json.arr resJ.toArray),
            ("discipline_table", boolJ c.row.sig.discipline), ("discipline_used", boolJ sg.discipline),
            ("twin_differs", boolJ (sb.trace.getD i [] != st.trace.getD i [])),
            ("changed", listJ natJ ((changed.filter (fun p => p.1 == stepIdx)).map (·.2)))]
    return ((), objJ [("calls", Json.arr outCalls.toArray),
                      ("discipline", boolJ (sigs.all Sig.discipline)),
                      ("refines", boolJ (sb.trace == vb.trace)),
                      ("strip_ok", boolJ (stripDeadWrites twin == base)),
                      ("handles", listJ (listJ natJ) handles)])
  | "run" =>
    let n ← getNat j "slots"
    let prog ← getList (fun sj => do
      let l ← asList sj
      match l with
      | [t, a] =>
        let tag ← asStr t
        if tag == "new" then pure (Step.new (← asInt a)) else throw "bad step"
      | [t, a, b] =>
        let tag ← asStr t
        if tag == "write" then pure (Step.write (← asNat a) (← asInt b))
        else if tag == "call" then do
          let am ← getList (fun x => do parseArgMode (← asStr x)) a "args"
          let rm ← getList parseResMode a "res"
          let hs ← asListOf asNat b
          pure (Step.call (compile ⟨am, rm⟩) hs)
        else throw "bad step"
      | _ => throw "bad step") j "prog"
    let s0 := init n
    let s := run prog s0
    let v := vrun prog (vinit n)
    let s' := run (stripDeadWrites prog) s0
    let disc := prog.all Step.discipline
    return ((), objJ [("trace", listJ (listJ intJ) s.trace), ("vtrace", listJ (listJ intJ) v.trace),
                      ("stripped_trace", listJ (listJ intJ) s'.trace),
                      ("changed", listJ (fun p => Json.arr #[natJ p.1, natJ p.2]) (libChanged prog s0)),
                      ("discipline", boolJ disc), ("held", listJ intJ (heldVals s))])
  | _ => throw s!"bad-op {op}"

def main : IO Unit := SB3Verif.Proto.run stepC19 ()
