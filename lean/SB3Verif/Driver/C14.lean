/-
Driver for C14: evaluates the executable model `SB3Verif.Dist` (the same generic definitions the
theorems of `Props/C14.lean` are about) at core `Float` (`"prec":64`) or core `Float32` (`"prec":32`) on
the parameters the harness (`/verif/harness/c14.py`) handed to the real `Distribution` objects.

Every floating-point number crosses the protocol as the IEEE-754 bit pattern of a *double*
(a natural number < 2^64), never as decimal text; with `"prec":32` the inputs are float32 values
(exactly representable as doubles) and the results are float32 values widened to double.

ops (all take `"prec"`; `f` = bit pattern, rows = batch rows)
  {"op":"diag","mean":[[f]],"log_std":[[f]],"actions":[[f]],"noise":[[f]]|absent,"unbatched":bool}
      → {"log_prob":[f]|f,"entropy":[f]|f,"mode":[[f]],"sample":[[f]],"sample_log_prob":[f]}
  {"op":"squashed","mean","log_std","actions","noise"?,"epsilon":f,"eps":f}
      → {"log_prob":[f],"mode":[[f]],"gaussian":[[f]],"sample":[[f]],"sample_log_prob":[f]}
  {"op":"cat","logits":[[f]],"actions":[n]}     → {"log_prob":[f],"entropy":[f],"mode":[n],"probs":[[f]]}
  {"op":"multicat","nvec":[n],"logits":[[f]],"actions":[[n]]} → {"log_prob":[f],"entropy":[f],"mode":[[n]]}
  {"op":"bern","logits":[[f]],"actions":[[f]]}  → {"log_prob":[f],"entropy":[f],"mode":[[f]]}
  {"op":"gsde","full_std","use_expln","squash":bool,"epsilon":f,"eps":f,"action_dim":n,"log_std":[[f]],
   "mean":[[f]],"latent":[[f]],"actions":[[f]],"W":[[[f]]] (one matrix per row)}
      → {"std":[[f]],"scale":[[f]],"log_prob":[f],"entropy":[f]|null,"mode":[[f]],"sample":[[f]]}
  {"op":"bijector","y":[f],"x":[f],"eps":f,"epsilon":f}
      → {"inverse":[f],"atanh":[f],"forward":[f],"correction":[f]}
  {"op":"sum_dims","tensor":f|[f]|[[f]]}        → {"out":f|[f]}
A request the model rejects (shape mismatch, action outside the support) answers {"error": …}.
-/
import SB3Verif.Driver.Proto
import SB3Verif.Model.Dist

open Lean SB3Verif.Proto SB3Verif.Dist

structure Codec (α : Type) where
  dec : Nat → α
  enc : α → Nat

def codec64 : Codec Float := ⟨fun n => Float.ofBits (UInt64.ofNat n), fun x => x.toBits.toNat⟩

def codec32 : Codec Float32 :=
  ⟨fun n => (Float.ofBits (UInt64.ofNat n)).toFloat32, fun x => x.toFloat.toBits.toNat⟩

section generic
variable {α : Type} [Add α] [Sub α] [Mul α] [Div α] [Neg α] [TScalar α]

def getF (c : Codec α) (j : Json) (k : String) : Except String α := do
  return c.dec (← getNat j k)

def getVec (c : Codec α) (j : Json) (k : String) : Except String (List α) := do
  return (← getList asNat j k).map c.dec

def getMat (c : Codec α) (j : Json) (k : String) : Except String (List (List α)) := do
  return (← getList (asListOf asNat) j k).map fun r => r.map c.dec

def fJ (c : Codec α) (x : α) : Json := natJ (c.enc x)
def vecJ (c : Codec α) (l : List α) : Json := listJ (fJ c) l
def matJ (c : Codec α) (m : List (List α)) : Json := listJ (vecJ c) m

def tensorJ (c : Codec α) : Tensor α → Json
  | .scalar x => fJ c x
  | .vec l => vecJ c l
  | .mat rows => matJ c rows

/-- all rows of all the matrices have the same number of rows, and row-wise the same length -/
def sameShape (ms : List (List (List α))) : Bool :=
  match ms with
  | [] => true
  | m :: rest => rest.all fun m' =>
      m'.length == m.length && (List.zip m m').all fun p => p.1.length == p.2.length

def requireShape (ms : List (List (List α))) : Except String Unit :=
  if sameShape ms then pure () else throw "shape-mismatch"

def allSome {β : Type} : List (Option β) → Option (List β)
  | [] => some []
  | none :: _ => none
  | some x :: r => (allSome r).map (x :: ·)

def stepGeneric (c : Codec α) (op : String) (j : Json) : Except String Json := do
  match op with
  | "diag" =>
    let μ ← getMat c j "mean"
    let ls ← getMat c j "log_std"
    let a ← getMat c j "actions"
    requireShape [μ, ls, a]
    let unb ← getBool j "unbatched"
    let (lp, ent) ←
      if unb then
        match μ, ls, a with
        | [m], [s], [x] => pure (gaussLogProbVec m s x, gaussEntropyVec s)
        | _, _, _ => throw "unbatched-needs-one-row"
      else pure (gaussLogProbBatch μ ls a, gaussEntropyBatch ls)
    let mode := μ.map gaussMode
    let mut out := [("log_prob", tensorJ c lp), ("entropy", tensorJ c ent), ("mode", matJ c mode)]
    match fld j "noise" with
    | .ok _ =>
      let z ← getMat c j "noise"
      requireShape [μ, z]
      let smp := zipWith3 gaussSample μ ls z
      let slp := zipWith3 gaussLogProb μ ls smp
      out := out ++ [("sample", matJ c smp), ("sample_log_prob", vecJ c slp)]
    | .error _ => pure ()
    return objJ out
  | "squashed" =>
    let μ ← getMat c j "mean"
    let ls ← getMat c j "log_std"
    let a ← getMat c j "actions"
    requireShape [μ, ls, a]
    let ε ← getF c j "epsilon"
    let eps ← getF c j "eps"
    let lp := zipWith3 (squashedLogProb ε eps) μ ls a
    let mode := μ.map squashedMode
    let mut out := [("log_prob", vecJ c lp), ("mode", matJ c mode)]
    match fld j "noise" with
    | .ok _ =>
      let z ← getMat c j "noise"
      requireShape [μ, z]
      let s := zipWith3 squashedSample μ ls z
      let fp := zipWith3 (squashedLogProbFromParams ε) μ ls z
      out := out ++ [("gaussian", matJ c (s.map (·.1))), ("sample", matJ c (s.map (·.2))),
        ("sample_log_prob", vecJ c (fp.map (·.2)))]
    | .error _ => pure ()
    return objJ out
  | "cat" =>
    let l ← getMat c j "logits"
    let a ← getList asNat j "actions"
    if l.length != a.length then throw "shape-mismatch"
    if l.any (·.isEmpty) then throw "empty-logits"
    match allSome (List.zipWith catLogProb l a) with
    | none => throw "action-outside-support"
    | some lp =>
      return objJ [("log_prob", vecJ c lp), ("entropy", vecJ c (l.map catEntropy)),
        ("mode", listJ natJ (l.map catMode)), ("probs", matJ c (l.map catProbs))]
  | "multicat" =>
    let nvec ← getList asNat j "nvec"
    let l ← getMat c j "logits"
    let a ← getList (asListOf asNat) j "actions"
    if l.length != a.length then throw "shape-mismatch"
    if l.any (fun r => r.length != nvec.sum) then throw "split-size-mismatch"
    if nvec.any (· == 0) then throw "empty-block"
    match allSome (List.zipWith (multiLogProb nvec) l a) with
    | none => throw "action-outside-support"
    | some lp =>
      return objJ [("log_prob", vecJ c lp), ("entropy", vecJ c (l.map (multiEntropy nvec))),
        ("mode", listJ (listJ natJ) (l.map (multiMode nvec)))]
  | "bern" =>
    let l ← getMat c j "logits"
    let a ← getMat c j "actions"
    requireShape [l, a]
    return objJ [("log_prob", vecJ c (List.zipWith bernLogProb l a)),
      ("entropy", vecJ c (l.map bernEntropy)), ("mode", matJ c (l.map bernMode))]
  | "gsde" =>
    let fullStd ← getBool j "full_std"
    let useExpln ← getBool j "use_expln"
    let squash ← getBool j "squash"
    let ε ← getF c j "epsilon"
    let eps ← getF c j "eps"
    let n ← getNat j "action_dim"
    let logStd ← getMat c j "log_std"
    let μ ← getMat c j "mean"
    let latent ← getMat c j "latent"
    let a ← getMat c j "actions"
    let Ws := (← getList (asListOf (asListOf asNat)) j "W").map fun m => m.map fun r => r.map c.dec
    requireShape [μ, a]
    if μ.any (·.length != n) then throw "shape-mismatch"
    if latent.length != μ.length || Ws.length != μ.length then throw "shape-mismatch"
    if latent.any (·.length != logStd.length) then throw "shape-mismatch"
    if logStd.any (·.length != (if fullStd then n else 1)) then throw "shape-mismatch"
    if Ws.any (fun W => W.length != logStd.length || W.any (·.length != n)) then throw "shape-mismatch"
    let std := gsdeStd fullStd useExpln ε n logStd
    let scale := latent.map fun l => gsdeScale ε l std n
    let lp := zipWith3 (gsdeLogProb squash ε eps) μ scale a
    let ent : Json := match allSome (scale.map (gsdeEntropy squash)) with
      | some e => vecJ c e
      | none => Json.null
    let mode := μ.map (gsdeMode squash)
    let smp := zipWith3 (fun m l W => gsdeSample squash m l W n) μ latent Ws
    return objJ [("std", matJ c std), ("scale", matJ c scale), ("log_prob", vecJ c lp), ("entropy", ent),
      ("mode", matJ c mode), ("sample", matJ c smp)]
  | "bijector" =>
    let y ← getVec c j "y"
    let x ← getVec c j "x"
    let ε ← getF c j "epsilon"
    let eps ← getF c j "eps"
    return objJ [("inverse", vecJ c (y.map (tanhInverse eps))), ("atanh", vecJ c (y.map atanh)),
      ("forward", vecJ c (x.map TScalar.tanh)), ("correction", vecJ c (x.map (bijectorCorrection ε)))]
  | "sum_dims" =>
    let t ← fld j "tensor"
    let tens : Tensor α ←
      match t.getNat? with
      | .ok b => pure (Tensor.scalar (c.dec b))
      | .error _ =>
        match asListOf asNat t with
        | .ok v => pure (Tensor.vec (v.map c.dec))
        | .error _ =>
          match asListOf (asListOf asNat) t with
          | .ok m => pure (Tensor.mat (m.map fun r => r.map c.dec))
          | .error e => throw e
    return objJ [("out", tensorJ c (sumIndependentDims tens))]
  | _ => throw s!"bad-op {op}"

end generic

def stepC14 (_ : Unit) (j : Json) : Except String (Unit × Json) := do
  let op ← getStr j "op"
  let prec ← getNat j "prec"
  match prec with
  | 64 => return ((), ← stepGeneric codec64 op j)
  | 32 => return ((), ← stepGeneric codec32 op j)
  | _ => throw s!"bad-prec {prec}"

def main : IO Unit := SB3Verif.Proto.run stepC14 ()
