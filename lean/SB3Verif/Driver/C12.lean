/-
Driver for C12: runs the executable model `SB3Verif.Learn` on the histories the harness
(`/verif/harness/c12.py`) observed on real `learn()` calls.

ops
  {"op":"new","n_envs":n,"kind":"on","n_steps":k,"a2c":b,"batch":k,"n_epochs":k}
  {"op":"new","n_envs":n,"kind":"off","freq":k,"unit":"step"|"episode","grad_steps":i,
   "learning_starts":k,"policy_delay":k}                      → {"ok":true}       (fresh algorithm)
  {"op":"call","total":T,"reset":b,"steps":[[stop,dones,[kl flag per minibatch]|null],…]}
        one `learn` call and the environment steps that happened inside it
                                                               → {"events":[…],"state":{…}}
        errors: learn-while-running, env-step-after-end:<i>    (an input the model says cannot happen)
  {"op":"progress","num":n,"total":t}                          → {"p":q}
  {"op":"linear","start":q,"end":q,"frac":q,"p":q}             → {"v":q}            (get_linear_fn)
  {"op":"actor","delay":d,"u":u,"g":g}                         → {"n":k}            (TD3 delayed actor steps)
events: ["setup",num,total] ["rs",num,q] ["st",num,q] ["pr",num,total,q] ["re",num,steps,q]
        ["tr",num,opt,actor,q,nUpdates] ["fin",num,stopped]
-/
import SB3Verif.Driver.Proto
import SB3Verif.Model.Learn

open Lean SB3Verif.Proto SB3Verif.Learn

def evJ : Ev → Json
  | .setup num total => Json.arr #[strJ "setup", natJ num, natJ total]
  | .rolloutStart num seen => Json.arr #[strJ "rs", natJ num, ratJ seen]
  | .step num seen => Json.arr #[strJ "st", natJ num, ratJ seen]
  | .progress num total p => Json.arr #[strJ "pr", natJ num, natJ total, ratJ p]
  | .rolloutEnd num steps seen => Json.arr #[strJ "re", natJ num, natJ steps, ratJ seen]
  | .train num opt actor p nu => Json.arr #[strJ "tr", natJ num, natJ opt, natJ actor, ratJ p, natJ nu]
  | .finish num stopped => Json.arr #[strJ "fin", natJ num, boolJ stopped]

def stateJ (s : State) : Json :=
  objJ [("num", natJ s.num), ("total", natJ s.total), ("start", natJ s.start), ("progress", ratJ s.progress),
        ("n_updates", natJ s.nUpdates), ("opt_steps", natJ s.optSteps), ("episode_num", natJ s.episodeNum),
        ("running", boolJ s.running), ("stopped", boolJ s.stopped)]

def asStepIn (j : Json) : Except String Op := do
  match j.getArr? with
  | .ok #[a, b, c] =>
    let stop ← asBool a
    let dones ← asNat b
    let kl ← (if c.isNull then pure [] else asListOf asBool c)
    return Op.env stop dones kl
  | _ => throw s!"bad step input {j.compress}"

def parseCfg (j : Json) : Except String Cfg := do
  let n ← getNat j "n_envs"
  let k ← getStr j "kind"
  match k with
  | "on" =>
    return { nEnvs := n, kind := .on { nSteps := ← getNat j "n_steps", a2c := ← getBool j "a2c",
                                        batch := ← getNat j "batch", nEpochs := ← getNat j "n_epochs" } }
  | "off" =>
    let u ← getStr j "unit"
    let unit ← (match u with
      | "step" => pure FreqUnit.step
      | "episode" => pure FreqUnit.episode
      | _ => throw s!"bad unit {u}")
    return { nEnvs := n, kind := .off { freq := ← getNat j "freq", unit := unit, gradSteps := ← getInt j "grad_steps",
                                         learningStarts := ← getNat j "learning_starts",
                                         policyDelay := ← getNat j "policy_delay" } }
  | _ => throw s!"bad kind {k}"

/-- feed the inputs one by one through the model's `step`; an input the model declares not applicable
is an error (never silently ignored by the driver) -/
def feed (cfg : Cfg) : State → List Op → Nat → List Ev → Except String (State × List Ev)
  | s, [], _, acc => .ok (s, acc)
  | s, op :: ops, i, acc =>
    if applicable s op then
      let r := step cfg s op
      feed cfg r.1 ops (i + 1) (acc ++ r.2)
    else
      match op with
      | .learn _ _ => .error "learn-while-running"
      | .env _ _ _ => .error s!"env-step-after-end:{i}"

def stepC12 (st : Cfg × State) (j : Json) : Except String ((Cfg × State) × Json) := do
  let op ← getStr j "op"
  match op with
  | "new" =>
    let cfg ← parseCfg j
    return ((cfg, State.init), objJ [("ok", boolJ true)])
  | "call" =>
    let total ← getNat j "total"
    let reset ← getBool j "reset"
    let ins ← getList asStepIn j "steps"
    let (s', evs) ← feed st.1 st.2 (Op.learn total reset :: ins) 0 []
    return ((st.1, s'), objJ [("events", listJ evJ evs), ("state", stateJ s')])
  | "progress" =>
    let num ← getNat j "num"
    let total ← getNat j "total"
    return (st, objJ [("p", ratJ (progressOf num total))])
  | "linear" =>
    let a ← getRat j "start"
    let b ← getRat j "end"
    let f ← getRat j "frac"
    let p ← getRat j "p"
    return (st, objJ [("v", ratJ (linearFn a b f p))])
  | "actor" =>
    let d ← getNat j "delay"
    let u ← getNat j "u"
    let g ← getNat j "g"
    return (st, objJ [("n", natJ (actorSteps d u g))])
  | _ => throw s!"bad-op {op}"

def main : IO Unit := SB3Verif.Proto.run stepC12 (default, State.init)
