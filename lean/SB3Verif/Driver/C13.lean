/-
Driver for C13: runs the executable model `SB3Verif.Callback` (callback tree + learn-loop machine) on
the configuration the harness (`/verif/harness/c13.py`) ran on the real stable-baselines3 code.

op
  {"op":"run","tree":T,"n_envs":n,"on_policy":b,"kind":"steps"|"episodes","k":k,
   "dones":[d_1,d_2,…]            number of sub-envs done at the g-th vectorised step (external)
   "evals":[[num,den],…]           mean reward of each evaluation, in call order (external)
   "learns":[{"total":t,"reset":b},…],"fuel":F,"fresh_root":b}
  → {"learns":[{"events":[[id,kind,n_calls,num_timesteps,loc,ret],…],
                "trace":[[call,arg,ok],…],"num":…, "g":…, "raised":bool,
                "attrs":[[id,n_calls,num_timesteps,extra],…],"bests":[[id,null|[n,d]],…]},…]}
  T ::= null | {"t":"leaf","id":i,"stops":[…]} | {"t":"list","id":i,"ch":[T…]}
      | {"t":"everyN","id":i,"n":n,"ch":T} | {"t":"eval","id":i,"freq":f,"best":T,"after":T}
      | {"t":"ckpt","id":i,"freq":f} | {"t":"maxep","id":i,"max":m} | {"t":"fn","id":i,"stops":[…]}
      | {"t":"thr","id":i,"thr":q} | {"t":"noimp","id":i,"max":k,"min":k}     (null root = callback=None)
op {"op":"calls","tree":T,"n_envs":n,"dones":[…],"evals":[…],"calls":[[call,arg],…]}
  → {"events":[…],"oks":[bool…],"attrs":[…],"bests":[…]}      (entry points invoked directly)
-/
import SB3Verif.Driver.Proto
import SB3Verif.Model.Callback

open Lean SB3Verif.Proto SB3Verif.Callback

partial def parseTree (nEnvs : Nat) (j : Json) : Except String Cb := do
  if j.isNull then return .absent
  let t ← getStr j "t"
  let id ← getNat j "id"
  match t with
  | "leaf" => return .leaf id (← getList asNat j "stops") 0 0 0
  | "list" =>
    let ch ← fld j "ch" >>= asList
    let cs ← ch.mapM (parseTree nEnvs)
    return .list id 0 0 cs
  | "everyN" => return .everyN id (← getNat j "n") 0 0 0 (← fld j "ch" >>= parseTree nEnvs)
  | "eval" =>
    return .eval id (← getNat j "freq") 0 0 none (← fld j "best" >>= parseTree nEnvs) (← fld j "after" >>= parseTree nEnvs)
  | "ckpt" =>
    let f ← getNat j "freq"
    if f = 0 then throw "checkpoint-freq-0"
    return .checkpoint id f 0 0
  | "maxep" => return .maxEp id (← getNat j "max") nEnvs 0 0 0 0
  | "fn" => return .fn id (← getList asNat j "stops") 0 0 0 0
  | "thr" => return .rewardThr id (← getRat j "thr") 0 0
  | "noimp" => return .noImprove id (← getNat j "max") (← getNat j "min") none 0 0 0
  | _ => throw s!"bad-node {t}"

def kindS : Kind → String
  | .trainingStart => "training_start" | .rolloutStart => "rollout_start" | .step => "step"
  | .rolloutEnd => "rollout_end" | .trainingEnd => "training_end" | .save => "save" | .evalRun => "eval"

def eventJ (e : Event) : Json :=
  Json.arr #[natJ e.id, strJ (kindS e.kind), natJ e.nCalls, natJ e.numT, natJ e.loc, boolJ e.ret]

def callJ (c : Call × Bool) : Json :=
  let (n, a) : String × Nat := match c.1 with
    | .trainingStart k => ("training_start", k) | .rolloutStart => ("rollout_start", 0)
    | .updateLocals g => ("update_locals", g) | .step k => ("step", k)
    | .rolloutEnd => ("rollout_end", 0) | .trainingEnd => ("training_end", 0)
  Json.arr #[strJ n, natJ a, boolJ c.2]

def parseCall (j : Json) : Except String Call := do
  match j.getArr? with
  | .ok #[n, a] =>
    let a ← asNat a
    match (← asStr n) with
    | "training_start" => return .trainingStart a
    | "rollout_start" => return .rolloutStart
    | "update_locals" => return .updateLocals a
    | "step" => return .step a
    | "rollout_end" => return .rolloutEnd
    | "training_end" => return .trainingEnd
    | s => throw s!"bad-call {s}"
  | _ => throw "bad-call"

def attrsJ (t : Cb) : Json :=
  listJ (fun (a : Nat × Nat × Nat × Nat) => Json.arr #[natJ a.1, natJ a.2.1, natJ a.2.2.1, natJ a.2.2.2]) t.attrs

def bestsJ (t : Cb) : Json :=
  listJ (fun (a : Nat × Option Rat) => Json.arr #[natJ a.1, match a.2 with | none => Json.null | some q => ratJ q]) t.bests

/-- run the machine one control-flow step at a time; stop when done, when the code would have raised,
or when the fuel is gone -/
def runLearn (cfg : Cfg) : Nat → LS Run → Except String (LS Run × Bool)
  | 0, _ => throw "out-of-fuel"
  | f + 1, s =>
    if s.pc = .done then return (s, false)
    else
      let s' := s.next cfg (treeHandler cfg.dones)
      if s'.cb.fail then return (s, true) else runLearn cfg f s'

def stepC13 (_ : Unit) (j : Json) : Except String (Unit × Json) := do
  let op ← getStr j "op"
  let nEnvs ← getNat j "n_envs"
  let tree ← fld j "tree" >>= parseTree nEnvs
  let donesL ← getList asNat j "dones"
  let dones : Dones := fun g => if g = 0 then 0 else donesL.getD (g - 1) 0
  let evals ← getList asRat j "evals"
  match op with
  | "run" =>
    let onPol ← getBool j "on_policy"
    let k ← getNat j "k"
    let kind ← match (← getStr j "kind") with
      | "steps" => pure (RolloutKind.steps k)
      | "episodes" => pure (RolloutKind.episodes k)
      | s => throw s!"bad-kind {s}"
    let fuel ← getNat j "fuel"
    let cfg : Cfg := { nEnvs := nEnvs, onPolicy := onPol, kind := kind, dones := dones }
    let learns ← fld j "learns" >>= asList
    let fresh ← getBool j "fresh_root"
    let mut run : Run := { cb := tree, ext := { evals := evals } }
    let mut num := 0
    let mut g := 0
    let mut outs : Array Json := #[]
    for l in learns do
      let total ← getNat l "total"
      let reset ← getBool l "reset"
      let cb0 := if fresh then run.cb.freshRoot else run.cb
      let s0 : LS Run := LS.setup num g { run with cb := cb0, evs := [] } total reset
      let (s, raised) ← runLearn cfg fuel s0
      if s.cb.ext.starved then throw "evals-starved"
      outs := outs.push (objJ [("events", listJ eventJ s.cb.evs), ("trace", listJ callJ s.trace),
        ("num", natJ s.num), ("g", natJ s.g), ("raised", boolJ raised),
        ("attrs", attrsJ s.cb.cb), ("bests", bestsJ s.cb.cb)])
      run := { s.cb with fail := false }
      num := s.num
      g := s.g
      if raised then break
    return ((), objJ [("learns", Json.arr outs)])
  | "calls" =>
    let calls ← getList parseCall j "calls"
    let mut run : Run := { cb := tree, ext := { evals := evals } }
    let mut oks : Array Json := #[]
    for c in calls do
      let (r, ok) := run.feed dones c
      run := r
      oks := oks.push (boolJ ok)
    if run.ext.starved then throw "evals-starved"
    return ((), objJ [("events", listJ eventJ run.evs), ("oks", Json.arr oks), ("raised", boolJ run.fail),
      ("attrs", attrsJ run.cb), ("bests", bestsJ run.cb)])
  | _ => throw s!"bad-op {op}"

def main : IO Unit := SB3Verif.Proto.run stepC13 ()
