"""
C11 — predict() returns a valid action of the right shape for every supported space.

Implementation under test: BasePolicy.predict / obs_to_tensor / is_vectorized_* / maybe_transpose /
preprocess_obs / unscale_action / DQN.predict, reached through `model.predict` (or `model.policy.predict`)
of all six algorithms with the three policy aliases.
Model: lean/SB3Verif/Model/Predict.lean (driver lean/SB3Verif/Driver/C11.lean)

Two detectors per call:
  oracle          the property sentence evaluated on the implementation's observables and the generated
                  ground truth (shape / batch dimension, action_space.contains for every returned action,
                  integer-valuedness, determinism, bit-identical observation and parameters, HWC == CHW,
                  features seen by the networks == by-value encoding of the observation — in prediction and
                  in a real learn() run)
  correspondence  the same call replayed on the Lean model: result shape, vectorized flag, exploration-branch
                  shape, post-processing of the captured raw network output (clip / unscale), deterministic
                  action from the captured logits / Q-values, encoding handed to the features extractor
"""
from __future__ import annotations

import copy
import traceback
from fractions import Fraction as F

import numpy as np

from harness.common import ratj, unratj

RULE = (
    "cases from one SplitMix64 stream. (predict) one model per case: algorithm in PPO/A2C/DQN/SAC/TD3/DDPG with "
    "MlpPolicy/CnnPolicy/MultiInputPolicy, net_arch=[4]; observation space in Box rank 1-4 (float32), uint8 image "
    "HWC or CHW (small with MlpPolicy, 36-40 px with CnnPolicy / inside Dict), Discrete, MultiDiscrete, MultiBinary "
    "1-D and multi-dim, one-level Dict of 1-3 of those; action space in Box (rank 1-3, random asymmetric float32 "
    "bounds incl. the known one-ulp witnesses, symmetric, degenerate low==high), Discrete, MultiDiscrete, "
    "MultiBinary; weights fresh, or output-layer biases set to +-50 / +-3 per output (saturated tanh, means far "
    "outside the bounds, one-sided logits); gSDE and squash_output variants; 4-9 predict calls per model over "
    "batch in {none, 1, n<=4} x deterministic/stochastic x layout (native / other for images) x key order "
    "(Dict; every deterministic Dict call is repeated with the keys in space order, reversed and randomly permuted: same action, same features-extractor output) x Python-int observations (Discrete) x exploration branch (DQN, rate 1). (train) a real learn() run "
    "of 4-8 steps on an environment that emits a known sequence of observations, followed by predict() on each "
    "of them, with every tensor handed to a features extractor captured. (reject) observations whose shape was "
    "perturbed (extra / missing / changed dimension, mixed Dict): correspondence of accepted/rejected only. "
    "(rank0) rank-0 Box observation space (known finding K-C11-b). non-trivial = predict case with a batch of "
    "n>=2 and (extreme weights or an image in the other layout or a Dict observation); distinct = distinct "
    "(algorithm, policy, observation kind, action kind, weights, squash) combination plus canonical case"
)
STREAMS = {
    "shape": "shape of the returned array and vectorized flag of obs_to_tensor == model (predict, vectorizedFlag)",
    "explore": "shape returned by DQN's epsilon-greedy branch == model (dqnExplore)",
    "post_exact": "returned Box action == model's clip / unscale of the captured raw network output, bit for bit "
                  "(clip always; unscale where the network is saturated)",
    "post_float": "returned squashed Box action ~ model's unscale in exact arithmetic (1e-6 of the range)",
    "mode": "returned deterministic discrete action == model's argmax / per-block argmax / threshold of the "
            "captured logits or Q-values",
    "encode": "tensor handed to the features extractor == model's encodeRow (one-hot by value, /255 after the "
              "layout change), exact except /255 within half a float32 ulp",
    "reject": "accepted / rejected (and error class) for perturbed observation shapes == model",
}

ON_POLICY = ("PPO", "A2C")
BOX_ONLY = ("SAC", "TD3", "DDPG")
WITNESS_BOUNDS = [(-0.5766505002975464, 0.19603630900382996)]


# =============================================================================================
# generators
# =============================================================================================
def gen_leaf(rng, allow_image=True, big_image=False, in_dict=False):
    k = rng.weighted([("box", 4), ("image", 3 if allow_image else 0), ("discrete", 3), ("multidiscrete", 3),
                      ("multibinary", 3)])
    if k == "box":
        rank = rng.weighted([(1, 4), (2, 3), (3, 2), (4, 1)])
        return {"k": "box", "shape": [rng.randint(1, 3) for _ in range(rank)]}
    if k == "image":
        c = rng.randint(1, 3)
        if big_image:
            h, w = rng.randint(36, 40), rng.randint(36, 40)
        else:
            h, w = rng.randint(4, 7), rng.randint(4, 7)
        return {"k": "image", "c": c, "h": h, "w": w, "layout": rng.choice(["hwc", "chw"])}
    if k == "discrete":
        return {"k": "discrete", "n": rng.randint(1, 6)}
    if k == "multidiscrete":
        return {"k": "multidiscrete", "nvec": [rng.randint(1, 4) for _ in range(rng.randint(1, 3))]}
    if rng.chance(0.5):
        return {"k": "multibinary", "shape": [rng.randint(1, 4)], "int_n": True}
    return {"k": "multibinary", "shape": [rng.randint(1, 3) for _ in range(rng.randint(2, 3))], "int_n": False}


def gen_obs_space(rng, policy):
    if policy == "CnnPolicy":
        c = rng.randint(1, 4)
        return {"k": "image", "c": c, "h": rng.randint(36, 40), "w": rng.randint(36, 40),
                "layout": rng.choice(["hwc", "chw"])}
    if policy == "MultiInputPolicy":
        nk = rng.randint(1, 3)
        keys = rng.sample(["a", "b", "img", "vec", "k0", "z"], nk)
        keys.sort()
        layout = rng.choice(["hwc", "chw"])
        items = []
        n_img = 0
        for key in keys:
            leaf = gen_leaf(rng, allow_image=(n_img == 0 and rng.chance(0.5)), big_image=True)
            if leaf["k"] == "image":
                leaf["layout"] = layout
                n_img += 1
            items.append([key, leaf])
        return {"k": "dict", "items": items}
    return gen_leaf(rng, allow_image=True, big_image=False)


def rand_f32(rng, lo, hi):
    return float(np.float32(lo + (hi - lo) * rng.random()))


def gen_bounds(rng, n):
    style = rng.weighted([("rand", 6), ("witness", 2), ("sym", 1), ("unit", 1), ("big", 1), ("degenerate", 1)])
    low, high = [], []
    for _ in range(n):
        if style == "witness" and rng.chance(0.7):
            l, h = rng.choice(WITNESS_BOUNDS)
        elif style == "sym":
            h = rand_f32(rng, 0.1, 5)
            l = -h
        elif style == "unit":
            l, h = -1.0, 1.0
        elif style == "big":
            l = rand_f32(rng, -1e4, 1e4)
            h = float(np.float32(l + rand_f32(rng, 1.0, 1e4)))
        elif style == "degenerate" and rng.chance(0.5):
            l = rand_f32(rng, -3, 3)
            h = l
        else:
            l = rand_f32(rng, -1, 1) if rng.chance(0.6) else rand_f32(rng, -10, 10)
            h = float(np.float32(l + rand_f32(rng, 0.01, 1.5 if rng.chance(0.6) else 10)))
        if not (l <= h):
            l, h = h, l
        low.append(float(np.float32(l)))
        high.append(float(np.float32(h)))
    return low, high


def gen_act_space(rng, algo):
    if algo == "DQN":
        return {"k": "discrete", "n": rng.randint(1, 5)}
    if algo in BOX_ONLY:
        k = "box"
    else:
        k = rng.weighted([("box", 4), ("discrete", 2), ("multidiscrete", 2), ("multibinary", 2)])
    if k == "box":
        rank = rng.weighted([(1, 5), (2, 2), (3, 1)])
        shape = [rng.randint(1, 3) for _ in range(rank)]
        n = int(np.prod(shape))
        low, high = gen_bounds(rng, n)
        return {"k": "box", "shape": shape, "low": low, "high": high}
    if k == "discrete":
        return {"k": "discrete", "n": rng.randint(1, 5)}
    if k == "multidiscrete":
        return {"k": "multidiscrete", "nvec": [rng.randint(1, 4) for _ in range(rng.randint(1, 3))]}
    return {"k": "multibinary", "n": rng.randint(1, 4)}


def has_image(obs):
    if obs["k"] == "dict":
        return any(l["k"] == "image" for _, l in obs["items"])
    return obs["k"] == "image"


def gen_calls(rng, case, n_calls):
    obs, algo = case["obs"], case["algo"]
    calls = []
    batches = [None, 1, rng.randint(2, 4)]
    for i in range(n_calls):
        b = batches[i] if i < 3 else rng.choice(batches)
        call = {"batch": b, "det": rng.chance(0.6), "vseed": rng.randint(0, 2**31 - 1),
                "tseed": rng.randint(0, 2**31 - 1), "via": rng.weighted([("model", 3), ("policy", 1)])}
        if has_image(obs):
            call["layout"] = rng.choice(["hwc", "chw"])
        if obs["k"] == "dict":
            call["order"] = rng.perm(len(obs["items"]))
        if obs["k"] == "discrete" and b is None:
            call["pyint"] = rng.chance(0.3)
        if obs["k"] == "dict" and b is None:
            # Discrete entries of a single Dict observation given as plain python ints (seeded change C11-j)
            call["pyint"] = rng.chance(0.35)
        if algo == "DQN":
            call["explore"] = (not call["det"]) and rng.chance(0.6)
            if call["explore"]:
                call["via"] = "model"
        calls.append(call)
    return calls


def gen_predict(rng, widen):
    algo = rng.weighted([("PPO", 3), ("A2C", 2), ("DQN", 2), ("SAC", 3), ("TD3", 2), ("DDPG", 1)])
    policy = rng.weighted([("MlpPolicy", 7), ("CnnPolicy", 1), ("MultiInputPolicy", 3)])
    obs = gen_obs_space(rng, policy)
    act = gen_act_space(rng, algo)
    case = {"kind": "predict", "algo": algo, "policy": policy, "obs": obs, "act": act,
            "seed": rng.randint(0, 2**31 - 1)}
    mag = rng.weighted([(0, 3), (50, 5 if not widen else 8), (3, 2)])
    if mag:
        case["extreme"] = {"mag": mag, "signs": [rng.choice([-1, 1]) for _ in range(16)]}
    if act["k"] == "box":
        if algo in ON_POLICY and rng.chance(0.3):
            case["use_sde"] = True
            case["squash"] = rng.chance(0.7)
        elif algo == "SAC" and rng.chance(0.25):
            case["use_sde"] = True
    if algo in ("SAC", "TD3") and rng.chance(0.3):
        case["share_fe"] = True
    if policy == "MlpPolicy" and obs["k"] == "image" and rng.chance(0.15):
        case["normalize_images"] = False
    case["calls"] = gen_calls(rng, case, rng.randint(4, 9) if policy != "CnnPolicy" else rng.randint(3, 5))
    return case


def gen_train(rng, widen):
    algo = rng.weighted([("PPO", 2), ("A2C", 2), ("DQN", 2), ("SAC", 2), ("TD3", 1)])
    policy = rng.weighted([("MlpPolicy", 6), ("MultiInputPolicy", 2), ("CnnPolicy", 1)])
    if policy == "MultiInputPolicy":
        # keep it cheap: no image inside the Dict of a training run
        keys = sorted(rng.sample(["a", "b", "vec", "k0"], rng.randint(1, 2)))
        obs = {"k": "dict", "items": [[k, gen_leaf(rng, allow_image=False)] for k in keys]}
    else:
        obs = gen_obs_space(rng, policy)
    act = gen_act_space(rng, algo)
    # a Box with low == high makes scale_action (replay buffer path) divide by zero: training on a degenerate
    # action space is not this property's subject (prediction on it is, see gen_predict)
    while act["k"] == "box" and any(l == h for l, h in zip(act["low"], act["high"])):
        act = gen_act_space(rng, algo)
    return {"kind": "train", "algo": algo, "policy": policy, "obs": obs, "act": act,
            "seed": rng.randint(0, 2**31 - 1), "vseed": rng.randint(0, 2**31 - 1), "steps": rng.randint(4, 8),
            "n_obs": rng.randint(3, 6)}


def perturb(rng, shape):
    shape = list(shape)
    how = rng.weighted([("extra", 3), ("extra2", 2), ("drop", 2), ("change", 3), ("perm", 2), ("trail", 1)])
    if how == "extra":
        return [rng.randint(1, 3)] + shape
    if how == "extra2":
        return [rng.randint(1, 3), rng.randint(1, 2)] + shape
    if how == "drop" and shape:
        i = rng.randint(0, len(shape) - 1)
        return shape[:i] + shape[i + 1:]
    if how == "change" and shape:
        i = rng.randint(0, len(shape) - 1)
        s = list(shape)
        s[i] = max(1, s[i] + rng.choice([-1, 1, 2]))
        return s
    if how == "perm" and len(shape) >= 2:
        return rng.shuffle(list(shape))
    return shape + [rng.randint(1, 2)]


def leaf_single_shape(leaf, layout=None):
    k = leaf["k"]
    if k == "box":
        return list(leaf["shape"])
    if k == "image":
        lay = layout or "chw"
        return [leaf["h"], leaf["w"], leaf["c"]] if lay == "hwc" else [leaf["c"], leaf["h"], leaf["w"]]
    if k == "discrete":
        return []
    if k == "multidiscrete":
        return [len(leaf["nvec"])]
    return list(leaf["shape"])


def gen_reject(rng, widen):
    algo = rng.weighted([("PPO", 3), ("DQN", 2), ("SAC", 2), ("TD3", 1)])
    policy = rng.weighted([("MlpPolicy", 3), ("MultiInputPolicy", 2)])
    if policy == "MultiInputPolicy":
        keys = sorted(rng.sample(["a", "b", "vec", "k0"], rng.randint(2, 3)))
        obs = {"k": "dict", "items": [[k, gen_leaf(rng, allow_image=False)] for k in keys]}
    else:
        obs = gen_leaf(rng, allow_image=True)
    act = gen_act_space(rng, algo)
    case = {"kind": "reject", "algo": algo, "policy": policy, "obs": obs, "act": act,
            "seed": rng.randint(0, 2**31 - 1)}
    calls = []
    for _ in range(rng.randint(3, 6)):
        if obs["k"] == "dict":
            mode = rng.weighted([("mixed", 3), ("perturb", 3), ("missing", 1), ("extrakey", 1)])
            base = rng.weighted([(None, 2), (1, 1), (rng.randint(2, 3), 2)])
            shapes = []
            for key, leaf in obs["items"]:
                s = leaf_single_shape(leaf)
                shapes.append([key, ([base] if base is not None else []) + s])
            j = rng.randint(0, len(shapes) - 1)
            if mode == "mixed":
                s = leaf_single_shape(obs["items"][j][1])
                shapes[j][1] = ([rng.randint(1, 3)] if base is None else []) + s
            elif mode == "perturb":
                shapes[j][1] = perturb(rng, shapes[j][1])
            elif mode == "missing":
                del shapes[j]
            else:
                shapes.append(["extra_key", [2]])
            rng.shuffle(shapes)
            calls.append({"shapes": shapes, "explore": algo == "DQN" and rng.chance(0.4)})
        else:
            lay = rng.choice(["hwc", "chw"]) if obs["k"] == "image" else None
            s = leaf_single_shape(obs, lay)
            if rng.chance(0.5):
                s = [rng.randint(1, 3)] + s
            calls.append({"shape": perturb(rng, s), "explore": algo == "DQN" and rng.chance(0.4)})
    case["calls"] = calls
    return case


def gen_rank0(rng, widen):
    algo = rng.choice(["PPO", "A2C", "DQN", "SAC", "TD3"])
    return {"kind": "rank0", "algo": algo, "policy": "MlpPolicy", "obs": {"k": "box", "shape": []},
            "act": gen_act_space(rng, algo), "seed": rng.randint(0, 2**31 - 1),
            "batch": rng.choice([None, 1, 3]), "vseed": rng.randint(0, 2**31 - 1)}


def gen_cases(ctx):
    rng = ctx.rng
    cases = []
    for _ in range(ctx.budget(440, 4500)):
        cases.append(gen_predict(rng, ctx.widen))
    for _ in range(ctx.budget(48, 480)):
        cases.append(gen_train(rng, ctx.widen))
    for _ in range(ctx.budget(80, 800)):
        cases.append(gen_reject(rng, ctx.widen))
    for _ in range(ctx.budget(8, 40)):
        cases.append(gen_rank0(rng, ctx.widen))
    return cases


def shrink_candidates(case):
    k = case.get("kind")
    if k in ("predict", "reject"):
        calls = case["calls"]
        if len(calls) > 1:
            for i in range(len(calls)):
                c = dict(case)
                c["calls"] = [calls[i]]
                yield c
        if k == "predict":
            if len(calls) == 1 and calls[0].get("batch") not in (None, 1):
                c = copy.deepcopy(case)
                c["calls"][0]["batch"] = 1
                yield c
                c = copy.deepcopy(case)
                c["calls"][0]["batch"] = None
                yield c
            for f in ("use_sde", "share_fe"):
                if case.get(f):
                    c = copy.deepcopy(case)
                    c.pop(f)
                    c.pop("squash", None)
                    yield c
            if case["act"]["k"] == "box" and len(case["act"]["shape"]) > 1:
                c = copy.deepcopy(case)
                n = len(c["act"]["low"])
                c["act"]["shape"] = [n]
                yield c
            if case["act"]["k"] == "box" and len(case["act"]["low"]) > 1:
                n = len(case["act"]["low"])
                for i in range(n):
                    c = copy.deepcopy(case)
                    c["act"]["shape"] = [1]
                    c["act"]["low"] = [case["act"]["low"][i]]
                    c["act"]["high"] = [case["act"]["high"][i]]
                    yield c
            if case["obs"]["k"] not in ("box",) and case["policy"] == "MlpPolicy":
                c = copy.deepcopy(case)
                c["obs"] = {"k": "box", "shape": [2]}
                for cl in c["calls"]:
                    for f in ("layout", "order", "pyint"):
                        cl.pop(f, None)
                c.pop("normalize_images", None)
                yield c
    elif k == "train":
        if case["steps"] > 4:
            c = dict(case)
            c["steps"] = 4
            yield c
        if case["n_obs"] > 2:
            c = dict(case)
            c["n_obs"] = case["n_obs"] - 1
            yield c


# =============================================================================================
# spaces, models, observations
# =============================================================================================
def mk_leaf_space(leaf):
    from gymnasium import spaces

    k = leaf["k"]
    if k == "box":
        return spaces.Box(-8.0, 8.0, tuple(leaf["shape"]), np.float32)
    if k == "image":
        shape = (leaf["h"], leaf["w"], leaf["c"]) if leaf["layout"] == "hwc" else (leaf["c"], leaf["h"], leaf["w"])
        return spaces.Box(0, 255, shape, np.uint8)
    if k == "discrete":
        return spaces.Discrete(leaf["n"])
    if k == "multidiscrete":
        return spaces.MultiDiscrete(leaf["nvec"])
    if k == "multibinary":
        return spaces.MultiBinary(leaf["shape"][0] if leaf.get("int_n") else leaf["shape"])
    raise ValueError(k)


def mk_obs_space(obs):
    from gymnasium import spaces

    if obs["k"] == "dict":
        return spaces.Dict({key: mk_leaf_space(leaf) for key, leaf in obs["items"]})
    return mk_leaf_space(obs)


def mk_act_space(act):
    from gymnasium import spaces

    k = act["k"]
    if k == "box":
        shape = tuple(act["shape"])
        return spaces.Box(np.array(act["low"], dtype=np.float32).reshape(shape),
                          np.array(act["high"], dtype=np.float32).reshape(shape), dtype=np.float32)
    if k == "discrete":
        return spaces.Discrete(act["n"])
    if k == "multidiscrete":
        return spaces.MultiDiscrete(act["nvec"])
    return spaces.MultiBinary(act["n"])


def act_shape(act):
    k = act["k"]
    if k == "box":
        return tuple(act["shape"])
    if k == "discrete":
        return ()
    if k == "multidiscrete":
        return (len(act["nvec"]),)
    return (act["n"],)


def leaf_model_json(leaf):
    """the policy-side space (images channel-first) as the Lean driver reads it"""
    k = leaf["k"]
    if k == "box":
        return {"k": "box", "shape": leaf["shape"], "image": False}
    if k == "image":
        return {"k": "box", "shape": [leaf["c"], leaf["h"], leaf["w"]], "image": True}
    if k == "discrete":
        return {"k": "discrete", "n": leaf["n"]}
    if k == "multidiscrete":
        return {"k": "multidiscrete", "nvec": leaf["nvec"]}
    return {"k": "multibinary", "shape": leaf["shape"]}


def obs_model_json(obs):
    if obs["k"] == "dict":
        return {"k": "dict", "items": [[key, leaf_model_json(leaf)] for key, leaf in obs["items"]]}
    return leaf_model_json(obs)


def act_model_json(act):
    k = act["k"]
    if k == "box":
        return {"k": "box", "shape": act["shape"]}
    if k == "discrete":
        return {"k": "discrete", "n": act["n"]}
    if k == "multidiscrete":
        return {"k": "multidiscrete", "nvec": act["nvec"]}
    return {"k": "multibinary", "n": act["n"]}


_ENV_CLS = None


def env_cls():
    global _ENV_CLS
    if _ENV_CLS is None:
        import gymnasium as gym

        class SeqEnv(gym.Env):
            """emits a fixed cyclic sequence of observations (any space kind) and records what it emitted"""

            def __init__(self, obs_space, act_space, seq=None):
                self.observation_space = obs_space
                self.action_space = act_space
                self.seq = seq
                self.i = 0
                self.emitted = []

            def _next(self):
                if self.seq is None:
                    return self.observation_space.sample()
                j = self.i % len(self.seq)
                self.i += 1
                self.emitted.append(j)
                return copy.deepcopy(self.seq[j])

            def reset(self, *, seed=None, options=None):
                return self._next(), {}

            def step(self, action):
                o = self._next()
                return o, 1.0, (self.seq is None and self.i % 3 == 0), False, {}

        _ENV_CLS = SeqEnv
    return _ENV_CLS


def build_model(case, seq=None, train=False):
    import stable_baselines3 as sb3
    import torch as th

    algo = getattr(sb3, case["algo"])
    th.manual_seed(case["seed"])
    np.random.seed(case["seed"] % (2**32))
    env = env_cls()(mk_obs_space(case["obs"]), mk_act_space(case["act"]), seq)
    pk = {"net_arch": [4]}
    if case["policy"] == "CnnPolicy":
        pk["features_extractor_kwargs"] = {"features_dim": 8}
    if case["policy"] == "MultiInputPolicy" and has_image(case["obs"]):
        pk["features_extractor_kwargs"] = {"cnn_output_dim": 8}
    if case.get("squash"):
        pk["squash_output"] = True
    if case.get("share_fe"):
        pk["share_features_extractor"] = True
    if case.get("normalize_images") is False:
        pk["normalize_images"] = False
    kw = {}
    if case.get("use_sde"):
        kw["use_sde"] = True
    if case["algo"] == "PPO":
        kw.update(n_steps=2, batch_size=2, n_epochs=1)
    elif case["algo"] == "A2C":
        kw.update(n_steps=2)
    else:
        kw.update(buffer_size=8, learning_starts=2 if train else 0, batch_size=2, train_freq=1)
        if case["algo"] == "DQN":
            kw.update(target_update_interval=2)
    model = algo(case["policy"], env, policy_kwargs=pk, device="cpu", verbose=0, **kw)
    return model, env


def out_layer(policy):
    """the last Linear layer producing what becomes the action (mean / logits / Q-values)"""
    import torch as th

    if hasattr(policy, "action_net"):
        mod = policy.action_net
    elif hasattr(policy, "q_net"):
        mod = policy.q_net.q_net
    else:
        mod = policy.actor.mu
    lins = [m for m in mod.modules() if isinstance(m, th.nn.Linear)]
    return lins[-1]


def set_extreme(policy, ext):
    import torch as th

    lin = out_layer(policy)
    signs = ext["signs"]
    with th.no_grad():
        for i in range(lin.bias.shape[0]):
            lin.bias[i] = float(ext["mag"] * signs[i % len(signs)])


def gen_rows(leaf, n, rs):
    """n canonical observations of a leaf space (images canonical = channel-first)"""
    k = leaf["k"]
    rows = []
    for _ in range(n):
        if k == "box":
            rows.append((rs.randint(-32, 33, size=tuple(leaf["shape"])) / 4.0).astype(np.float32))
        elif k == "image":
            rows.append(rs.randint(0, 256, size=(leaf["c"], leaf["h"], leaf["w"])).astype(np.uint8))
        elif k == "discrete":
            rows.append(np.int64(rs.randint(0, leaf["n"])))
        elif k == "multidiscrete":
            rows.append(np.array([rs.randint(0, m) for m in leaf["nvec"]], dtype=np.int64))
        else:
            rows.append(rs.randint(0, 2, size=tuple(leaf["shape"])).astype(np.int8))
    return rows


def rows_to_input(leaf, rows, batch, layout=None, pyint=False):
    def one(r):
        if leaf["k"] == "image" and layout == "hwc":
            return np.ascontiguousarray(np.transpose(r, (1, 2, 0)))
        return np.array(r)

    if batch is None:
        if pyint:
            return int(rows[0])
        return one(rows[0])
    return np.stack([one(r) for r in rows])


def expected_features(leaf, row, normalize=True):
    """the by-value encoding of one observation, as float32, flat — the oracle's own definition"""
    k = leaf["k"]
    if k == "box":
        return np.asarray(row, dtype=np.float32).ravel()
    if k == "image":
        x = np.asarray(row).astype(np.float32).ravel()
        return x / np.float32(255.0) if normalize else x
    if k == "discrete":
        e = np.zeros(leaf["n"], dtype=np.float32)
        e[int(row)] = 1.0
        return e
    if k == "multidiscrete":
        parts = []
        for m, v in zip(leaf["nvec"], row):
            e = np.zeros(m, dtype=np.float32)
            e[int(v)] = 1.0
            parts.append(e)
        return np.concatenate(parts)
    return np.asarray(row, dtype=np.float32).ravel()


def leaves_of(obs):
    if obs["k"] == "dict":
        return [(key, leaf) for key, leaf in obs["items"]]
    return [(None, obs)]


def make_obs(case, call):
    """returns (observation handed to predict, {key: (leaf, rows)})"""
    rs = np.random.RandomState(call["vseed"])
    b = call.get("batch")
    n = 1 if b is None else b
    truth = {}
    for key, leaf in leaves_of(case["obs"]):
        truth[key] = (leaf, gen_rows(leaf, n, rs))
    if case["obs"]["k"] == "dict":
        keys = [key for key, _ in case["obs"]["items"]]
        order = call.get("order") or list(range(len(keys)))
        o = {}
        for j in order:
            key = keys[j]
            leaf, rows = truth[key]
            o[key] = rows_to_input(leaf, rows, b, call.get("layout"), bool(call.get("pyint")) and leaf["k"] == "discrete")
        return o, truth
    leaf, rows = truth[None]
    return rows_to_input(leaf, rows, b, call.get("layout"), call.get("pyint", False)), truth


def obs_shape_json(obs_in):
    if isinstance(obs_in, dict):
        return {"dict": [[k, list(np.shape(v))] for k, v in obs_in.items()]}
    return {"arr": list(np.shape(obs_in))}


def snapshot_obs(o):
    if isinstance(o, dict):
        return {k: (v, np.array(v, copy=True)) for k, v in o.items()}
    if isinstance(o, np.ndarray):
        return np.array(o, copy=True)
    return o


def obs_unchanged(o, snap):
    if isinstance(o, dict):
        if list(o.keys()) != list(snap.keys()):
            return False
        for k, v in o.items():
            ref, cp = snap[k]
            if not isinstance(ref, np.ndarray):
                # a plain python value (int for a Discrete entry): same object / same value
                if type(v) is not type(ref) or v != ref:
                    return False
                continue
            if v is not ref or v.shape != cp.shape or v.dtype != cp.dtype or v.tobytes() != cp.tobytes():
                return False
        return True
    if isinstance(o, np.ndarray):
        return o.shape == snap.shape and o.dtype == snap.dtype and o.tobytes() == snap.tobytes()
    return o == snap


def params_snapshot(policy):
    return {k: v.detach().clone() for k, v in policy.state_dict().items()}


def params_unchanged(policy, snap):
    import torch as th

    sd = policy.state_dict()
    if sd.keys() != snap.keys():
        return False
    for k, v in sd.items():
        if v.shape != snap[k].shape or v.dtype != snap[k].dtype:
            return False
        if not th.equal(v, snap[k]):
            # NaN-safe bitwise comparison
            if v.numpy().tobytes() != snap[k].numpy().tobytes():
                return False
    return True


class Tap:
    """records what the policy's internals saw during one call (hooks installed from the harness)"""

    def __init__(self, policy):
        from stable_baselines3.common.torch_layers import BaseFeaturesExtractor, CombinedExtractor

        self.policy = policy
        self.fe_inputs = []
        self.fe_outputs = []
        self.outs = []
        self.raw = None
        self.vec = None
        self.handles = []
        nested = set()
        for m in policy.modules():
            if isinstance(m, CombinedExtractor):
                for sub in m.extractors.values():
                    nested.add(id(sub))
        for m in policy.modules():
            if isinstance(m, BaseFeaturesExtractor) and id(m) not in nested:
                self.handles.append(m.register_forward_pre_hook(self._fe_hook))
                self.handles.append(m.register_forward_hook(self._fe_out_hook))
        if hasattr(policy, "action_net"):
            self.handles.append(policy.action_net.register_forward_hook(self._out_hook))
        elif hasattr(policy, "q_net"):
            self.handles.append(policy.q_net.q_net.register_forward_hook(self._out_hook))
        orig_predict = policy._predict
        orig_o2t = policy.obs_to_tensor

        def _predict(observation, deterministic=False):
            r = orig_predict(observation, deterministic=deterministic)
            self.raw = r.detach().clone()
            return r

        def obs_to_tensor(observation):
            t, v = orig_o2t(observation)
            self.vec = bool(v)
            return t, v

        policy._predict = _predict
        policy.obs_to_tensor = obs_to_tensor

    def _fe_hook(self, mod, inp):
        x = inp[0]
        if isinstance(x, dict):
            self.fe_inputs.append({k: v.detach().clone() for k, v in x.items()})
        else:
            self.fe_inputs.append(x.detach().clone())

    def _fe_out_hook(self, mod, inp, out):
        self.fe_outputs.append(out.detach().clone())

    def _out_hook(self, mod, inp, out):
        self.outs.append(out.detach().clone())

    def reset(self):
        self.fe_inputs, self.fe_outputs, self.outs, self.raw, self.vec = [], [], [], None, None

    def close(self):
        for h in self.handles:
            h.remove()
        for name in ("_predict", "obs_to_tensor"):
            if name in self.policy.__dict__:
                del self.policy.__dict__[name]


ERR_CLASS = {
    "shape": "ValueError", "axes": "ValueError", "reshape": "ValueError", "squeeze": "ValueError",
    "mixedBatch": "RuntimeError", "key": "KeyError", "flatten": "IndexError",
}


def sig_base(case):
    o = case["obs"]
    return {"algo": case["algo"], "policy": case["policy"], "obs_kind": o["k"] if o["k"] != "box" or o["shape"] else "box_rank0",
            "act_kind": case["act"]["k"]}


def q(x):
    return ratj(F(float(x)))


# =============================================================================================
# predict cases
# =============================================================================================
def features_rows(t):
    """captured tensor (B, ...) -> (B, -1) float32 numpy"""
    a = t.numpy()
    return a.reshape(a.shape[0], -1)


def check_features(rep, case, what_path, fe_inputs, truth, normalize, sig):
    """oracle: every tensor handed to a features extractor is the by-value encoding of the observation"""
    ok = True
    for cap in fe_inputs:
        for key, (leaf, rows) in truth.items():
            t = cap[key] if isinstance(cap, dict) else cap
            got = features_rows(t)
            if got.dtype != np.float32 or got.shape[0] != len(rows):
                rep.violation("features extractor input has the wrong dtype / batch size", case,
                              dict(sig, kind="features", leaf=leaf["k"], path=what_path),
                              {"dtype": str(got.dtype), "shape": list(got.shape), "rows": len(rows)})
                return False
            for i, r in enumerate(rows):
                exp = expected_features(leaf, r, normalize)
                if got[i].shape != exp.shape or got[i].tobytes() != exp.tobytes():
                    rep.violation(
                        "the observation reaches the network encoded differently from its by-value encoding "
                        "(one-hot at the value / pixel/255 in channel-first order / identity)", case,
                        dict(sig, kind="features", leaf=leaf["k"], path=what_path),
                        {"key": key, "row": i, "observation": np.asarray(r).ravel()[:24].tolist(),
                         "got": got[i][:24].tolist(), "expected": exp[:24].tolist()})
                    return False
    return ok


def run_predict(ctx, case, ops, plan):
    import torch as th

    rep = ctx.report
    sig0 = sig_base(case)
    try:
        model, env = build_model(case)
    except Exception as e:  # construction is not the property's subject, but it must work for supported spaces
        rep.violation("model construction failed for a supported space pair", case,
                      dict(sig0, kind="construct", exception=type(e).__name__), traceback.format_exc()[-1500:])
        return
    policy = model.policy
    if case.get("extreme"):
        set_extreme(policy, case["extreme"])
    aspace = model.action_space
    ashape = act_shape(case["act"])
    normalize = case.get("normalize_images", True)
    squash = bool(policy.squash_output) and case["act"]["k"] == "box"
    rep.count(f"algo:{case['algo']}")
    rep.count(f"policy:{case['policy']}")
    rep.count(f"obs:{case['obs']['k']}")
    rep.count(f"act:{case['act']['k']}")
    rep.count("weights:" + (f"bias{case['extreme']['mag']}" if case.get("extreme") else "fresh"))
    if case["act"]["k"] == "box":
        rep.count("box:squashed" if squash else "box:clipped")
    tap = Tap(policy)
    space_keys = list(model.observation_space.spaces.keys()) if case["obs"]["k"] == "dict" else [None]
    try:
        for ci, call in enumerate(case["calls"]):
            obs_in, truth = make_obs(case, call)
            b = call.get("batch")
            explore = bool(call.get("explore"))
            sig = dict(sig0, batch="none" if b is None else ("1" if b == 1 else "n"), det=call["det"],
                       explore=explore)
            rep.count("batch:" + sig["batch"])
            rep.count("det" if call["det"] else "stochastic")
            if call.get("layout"):
                rep.count("image_layout:" + call["layout"])
            if call.get("pyint"):
                rep.count("python_int_observation")
            if case["algo"] == "DQN":
                model.exploration_rate = 1.0 if explore else 0.0
                if explore:
                    rep.count("dqn_explore_branch")
            snap_o = snapshot_obs(obs_in)
            snap_p = params_snapshot(policy)
            predictor = model.predict if call["via"] == "model" else policy.predict
            tap.reset()
            th.manual_seed(call["tseed"])
            np.random.seed(call["tseed"] % (2**32))
            aspace.seed(call["tseed"])
            model.action_space.seed(call["tseed"])
            try:
                action, state = predictor(obs_in, deterministic=call["det"])
            except Exception as e:
                rep.violation("predict() raised on a valid observation", case,
                              dict(sig, kind="exception", exception=type(e).__name__),
                              traceback.format_exc()[-1500:])
                continue
            fe_inputs, outs, raw, vec = tap.fe_inputs, tap.outs, tap.raw, tap.vec
            # ---------------- oracle --------------------------------------------------------------
            exp_shape = ashape if b is None else (b,) + ashape
            bad = False
            if not isinstance(action, np.ndarray) or tuple(action.shape) != exp_shape:
                rep.violation("returned action has the wrong shape (batch dimension exactly when the input had one)",
                              case, dict(sig, kind="shape"),
                              {"got": list(np.shape(action)), "expected": list(exp_shape)})
                bad = True
            if state is not None:
                rep.violation("predict() returned a state for a non-recurrent policy", case, dict(sig, kind="state"))
            if not bad:
                elems = [action] if b is None else [action[i] for i in range(b)]
                for i, a in enumerate(elems):
                    if not aspace.contains(a):
                        detail = {"element": i, "action": np.asarray(a).ravel().tolist()}
                        if case["act"]["k"] == "box":
                            af = np.asarray(a, dtype=np.float64).ravel()
                            lo = np.array(case["act"]["low"])
                            hi = np.array(case["act"]["high"])
                            detail.update(low=case["act"]["low"], high=case["act"]["high"],
                                          above=(af - hi).clip(min=0).tolist(), below=(lo - af).clip(min=0).tolist())
                        rep.violation("returned action is not inside the action space", case,
                                      dict(sig, kind="contains", squash=squash), detail)
                        bad = True
                        break
                    if case["act"]["k"] != "box":
                        av = np.asarray(a)
                        if not np.all(av == np.round(av)):
                            rep.violation("returned discrete action is not integer valued", case,
                                          dict(sig, kind="integer"), {"action": av.tolist()})
                            bad = True
                            break
                rep.count(f"action_dtype:{case['act']['k']}:{action.dtype}")
            if not obs_unchanged(obs_in, snap_o):
                rep.violation("predict() changed the observation it was given", case, dict(sig, kind="obs_mutated"))
            if not params_unchanged(policy, snap_p):
                rep.violation("predict() changed the policy's parameters", case, dict(sig, kind="params_mutated"))
            if not (explore and case["algo"] == "DQN"):
                if not fe_inputs:
                    rep.note("no features extractor input captured")
                check_features(rep, case, "predict", fe_inputs, truth, normalize, sig)
                check_fe_outputs(rep, case, "predict", tap.fe_outputs, space_keys, truth, 1 if b is None else b,
                                 normalize, sig)
            fe_outputs = tap.fe_outputs
            # key order of a Dict observation must not matter (deterministic calls): space order, reversed, random
            if call["det"] and not bad and isinstance(obs_in, dict) and not explore:
                krs = np.random.RandomState(call["vseed"] ^ 0x5BD1)
                orders = {"space": list(space_keys), "reversed": list(reversed(space_keys)),
                          "random": [space_keys[j] for j in krs.permutation(len(space_keys))]}
                for oname, okeys in orders.items():
                    obs_o = {k: obs_in[k] for k in okeys}
                    tap.reset()
                    try:
                        a_o, _ = predictor(obs_o, deterministic=True)
                    except Exception as e:
                        rep.violation("predict() raised on a valid observation", case,
                                      dict(sig, kind="exception", exception=type(e).__name__, key_order=oname),
                                      traceback.format_exc()[-1500:])
                        break
                    same_f = len(tap.fe_outputs) == len(fe_outputs) and all(
                        fe_equal(x, y) for x, y in zip(tap.fe_outputs, fe_outputs))
                    if a_o.shape != action.shape or a_o.tobytes() != action.tobytes() or not same_f:
                        rep.violation("predict() of the same Dict observation depends on the order in which its keys "
                                      "are listed", case, dict(sig, kind="key_order", order=oname, features_equal=same_f),
                                      {"given_order": list(obs_in.keys()), "other_order": okeys,
                                       "given": action.ravel().tolist(), "other": a_o.ravel().tolist()})
                        break
                    rep.count("key_order_equal:" + oname)
            # determinism and layout independence (deterministic calls)
            if call["det"] and not bad:
                tap.reset()
                th.manual_seed(call["tseed"] + 1)
                try:
                    again, _ = predictor(obs_in, deterministic=True)
                    if again.shape != action.shape or again.tobytes() != action.tobytes():
                        rep.violation("two deterministic predict() calls on the same observation disagree", case,
                                      dict(sig, kind="determinism"),
                                      {"first": action.ravel().tolist(), "second": again.ravel().tolist()})
                except Exception as e:
                    rep.violation("predict() raised on a valid observation", case,
                                  dict(sig, kind="exception", exception=type(e).__name__),
                                  traceback.format_exc()[-1500:])
                if call.get("layout"):
                    other = dict(call, layout="chw" if call["layout"] == "hwc" else "hwc")
                    obs2, truth2 = make_obs(case, other)
                    first_fe = fe_inputs
                    tap.reset()
                    try:
                        a2, _ = predictor(obs2, deterministic=True)
                        # the networks must receive bit-identical tensors whichever layout the image arrived in
                        okf = check_features(rep, case, "predict_other_layout", tap.fe_inputs, truth2, normalize, sig)
                        same_in = okf and len(tap.fe_inputs) == len(first_fe) and all(
                            fe_equal(x, y) for x, y in zip(tap.fe_inputs, first_fe))
                        if okf and not same_in:
                            rep.violation("the same image reaches the network as different tensors depending on "
                                          "the layout it arrived in", case, dict(sig, kind="layout_features"))
                        # identical inputs -> identical outputs up to the float noise of strided kernels
                        if a2.shape != action.shape or not actions_close(case["act"], action, a2, outs, tap.outs):
                            rep.violation("predict() of the same image differs between channel-first and "
                                          "channel-last layout", case, dict(sig, kind="layout"),
                                          {"given": action.ravel().tolist(), "other": a2.ravel().tolist()})
                        else:
                            rep.count("layout_pair_equal")
                    except Exception as e:
                        rep.violation("predict() raised on a valid observation", case,
                                      dict(sig, kind="exception", exception=type(e).__name__, layout=other["layout"]),
                                      traceback.format_exc()[-1500:])
            # ---------------- model operations ----------------------------------------------------
            base = {"obs_space": obs_model_json(case["obs"]), "act_space": act_model_json(case["act"])}
            ops.append(dict(base, op="shape", obs=obs_shape_json(obs_in)))
            plan.append(("shape", case, call, {"shape": list(np.shape(action)), "vec": vec, "explore": explore}))
            if bad:
                continue
            nb = 1 if b is None else b
            if case["act"]["k"] == "box" and raw is not None:
                rawm = raw.numpy().reshape(nb, -1).astype(np.float64)
                dim = rawm.shape[1]
                ops.append({"op": "post", "squash": squash,
                            "low": [q(x) for x in case["act"]["low"]] * nb,
                            "high": [q(x) for x in case["act"]["high"]] * nb,
                            "raw": [q(x) for x in rawm.ravel()]})
                plan.append(("post", case, call, {"act": np.asarray(action, dtype=np.float64).ravel(),
                                                  "raw": rawm.ravel(), "squash": squash, "dim": dim, "nb": nb}))
            elif case["act"]["k"] != "box" and call["det"] and not explore and outs:
                logits = outs[-1].numpy().reshape(nb, -1).astype(np.float64)
                for i in range(nb):
                    row = logits[i]
                    if near_tie(case["act"], row):
                        rep.count("mode_skipped_near_tie")
                        continue
                    ops.append({"op": "mode", "act_space": act_model_json(case["act"]), "low": [], "high": [],
                                "squash": False, "out": [q(x) for x in row]})
                    a = action if b is None else action[i]
                    plan.append(("mode", case, call, {"act": [int(v) for v in np.asarray(a).ravel()]}))
            # encoding handed to the features extractor
            if fe_inputs and not (explore and case["algo"] == "DQN"):
                cap = fe_inputs[0]
                for key, (leaf, rows) in truth.items():
                    size = int(np.prod(leaf_single_shape(leaf) or [1])) * nb
                    if size > 400 and not (ctx.rng.chance(0.04)):
                        continue
                    t = cap[key] if isinstance(cap, dict) else cap
                    oin = obs_in[key] if isinstance(obs_in, dict) else obs_in
                    real = leaf["k"] == "box"
                    rws = np.asarray(oin).reshape(nb, -1)
                    ops.append({"op": "encode", "leaf": leaf_model_json(leaf), "obs": list(np.shape(oin)),
                                "normalize": normalize, "real": real,
                                "rows": [[q(x) for x in r] for r in rws] if real else [[int(x) for x in r] for r in rws]})
                    plan.append(("encode", case, call, {"got": features_rows(t).astype(np.float64), "leaf": leaf["k"],
                                                        "image": leaf["k"] == "image"}))
    finally:
        tap.close()


def pure_extractor(case):
    """the features extractor has no learned part (Flatten / CombinedExtractor without image keys): its output is a
    function of the observation alone — the per-key encodings, flattened, concatenated in the order of the
    observation SPACE's keys"""
    if case["policy"] == "CnnPolicy":
        return False
    if case["obs"]["k"] == "dict":
        return not has_image(case["obs"])
    return True


def expected_fe_output(case, space_keys, truth, i, normalize=True):
    """oracle's own definition of the features of observation i: encodings concatenated in space-key order"""
    if case["obs"]["k"] != "dict":
        leaf, rows = truth[None]
        return expected_features(leaf, rows[i], normalize)
    return np.concatenate([expected_features(truth[k][0], truth[k][1][i], normalize) for k in space_keys])


def check_fe_outputs(rep, case, path, fe_outputs, space_keys, truth, n, normalize, sig):
    if not pure_extractor(case):
        return True
    for out in fe_outputs:
        got = features_rows(out)
        if got.shape[0] != n:
            continue
        for i in range(n):
            exp = expected_fe_output(case, space_keys, truth, i, normalize)
            if got[i].shape != exp.shape or got[i].astype(np.float32).tobytes() != exp.tobytes():
                rep.violation("the features computed for an observation are not its per-key encodings in the order of "
                              "the observation space's keys", case, dict(sig, kind="fe_output", path=path),
                              {"row": i, "got": got[i][:32].tolist(), "expected": exp[:32].tolist(),
                               "space_keys": space_keys})
                return False
    return True


def fe_equal(x, y):
    if isinstance(x, dict) != isinstance(y, dict):
        return False
    if isinstance(x, dict):
        return x.keys() == y.keys() and all(fe_equal(x[k], y[k]) for k in x)
    return x.shape == y.shape and x.numpy().tobytes() == y.numpy().tobytes()


def actions_close(act, a1, a2, outs1, outs2):
    """same observation through two memory layouts: Box actions within float noise; discrete actions equal
    unless the deciding logits are within float noise of a tie"""
    if act["k"] == "box":
        x, y = np.asarray(a1, dtype=np.float64), np.asarray(a2, dtype=np.float64)
        rng_ = np.array(act["high"]) - np.array(act["low"])
        tol = 1e-4 * (1.0 + np.abs(x)) + 1e-4 * float(np.max(rng_))
        return bool(np.all(np.abs(x - y) <= tol))
    if np.array_equal(a1, a2):
        return True
    if outs1 and outs2:
        l1 = outs1[-1].numpy().astype(np.float64)
        l2 = outs2[-1].numpy().astype(np.float64)
        if l1.shape == l2.shape and np.all(np.abs(l1 - l2) <= 1e-4 * (1.0 + np.abs(l1))):
            nb = l1.shape[0]
            r1, r2 = np.asarray(a1).reshape(nb, -1), np.asarray(a2).reshape(nb, -1)
            return all(np.array_equal(r1[i], r2[i]) or near_tie(act, l1.reshape(nb, -1)[i]) for i in range(nb))
    return False


def near_tie(act, row):
    k = act["k"]
    if k == "discrete":
        blocks = [row]
    elif k == "multidiscrete":
        blocks, i = [], 0
        for m in act["nvec"]:
            blocks.append(row[i:i + m])
            i += m
    else:
        return bool(np.any(np.abs(row) < 1e-4))
    for blk in blocks:
        if len(blk) >= 2:
            s = np.sort(blk)
            if s[-1] - s[-2] < 1e-3 * max(1.0, abs(s[-1])):
                return True
    return False


# =============================================================================================
# training-path cases
# =============================================================================================
def run_train(ctx, case, ops, plan):
    import torch as th

    rep = ctx.report
    sig0 = dict(sig_base(case), path="train")
    rs = np.random.RandomState(case["vseed"])
    leaves = leaves_of(case["obs"])
    n = case["n_obs"]
    truth_rows = {key: gen_rows(leaf, n, rs) for key, leaf in leaves}
    seq = []
    for j in range(n):
        if case["obs"]["k"] == "dict":
            seq.append({key: rows_to_input(leaf, [truth_rows[key][j]], None, leaf.get("layout")) for key, leaf in leaves})
        else:
            leaf = leaves[0][1]
            seq.append(rows_to_input(leaf, [truth_rows[None][j]], None, leaf.get("layout")))
    try:
        model, env = build_model(case, seq=seq, train=True)
    except Exception as e:
        rep.violation("model construction failed for a supported space pair", case,
                      dict(sig0, kind="construct", exception=type(e).__name__), traceback.format_exc()[-1500:])
        return
    policy = model.policy
    rep.count(f"train_algo:{case['algo']}")
    rep.count(f"train_obs:{case['obs']['k']}")
    tap = Tap(policy)
    try:
        try:
            model.learn(total_timesteps=case["steps"])
        except Exception as e:
            rep.violation("learn() raised for a supported space pair", case,
                          dict(sig0, kind="exception", exception=type(e).__name__), traceback.format_exc()[-1500:])
            return
        train_caps = tap.fe_inputs
        if not train_caps:
            rep.note("train: nothing captured")
        expected = {key: [expected_features(leaf, r).tobytes() for r in truth_rows[key]] for key, leaf in leaves}
        seen = {key: set() for key, _ in leaves}
        for cap in train_caps:
            for key, leaf in leaves:
                t = cap[key] if isinstance(cap, dict) else cap
                got = features_rows(t)
                for i in range(got.shape[0]):
                    bts = got[i].astype(np.float32).tobytes()
                    if got.dtype != np.float32 or bts not in expected[key]:
                        rep.violation(
                            "during learn() a network saw an observation encoded differently from the by-value "
                            "encoding of anything the environment emitted", case,
                            dict(sig0, kind="features", leaf=leaf["k"]),
                            {"key": key, "got": got[i][:24].tolist(),
                             "emitted": [np.asarray(r).ravel()[:12].tolist() for r in truth_rows[key]]})
                        return
                    seen[key].add(bts)
        space_keys = list(model.observation_space.spaces.keys()) if case["obs"]["k"] == "dict" else [None]
        truth_all = {key: (leaf, truth_rows[key]) for key, leaf in leaves}
        if pure_extractor(case):
            exp_out = [expected_fe_output(case, space_keys, truth_all, j).tobytes() for j in range(n)]
            for out in tap.fe_outputs:
                got = features_rows(out)
                for i in range(got.shape[0]):
                    if got[i].astype(np.float32).tobytes() not in exp_out:
                        rep.violation("during learn() the features computed for an observation are not the per-key "
                                      "encodings, in space-key order, of anything the environment emitted", case,
                                      dict(sig0, kind="fe_output"), {"got": got[i][:32].tolist(), "space_keys": space_keys})
                        return
        rep.count("train_feature_rows", sum(int(features_rows(c[k] if isinstance(c, dict) else c).shape[0])
                                            for c in train_caps for k, _ in leaves))
        if case["algo"] in ON_POLICY:
            emitted = set(env.emitted)
            for key, leaf in leaves:
                for j in emitted:
                    if expected[key][j] not in seen[key]:
                        rep.violation("an observation the on-policy algorithm acted on never reached the network "
                                      "in its by-value encoding", case, dict(sig0, kind="features_missing", leaf=leaf["k"]),
                                      {"key": key, "index": j})
                        return
        # prediction on the same observations: identical encoding
        for j in range(n):
            tap.reset()
            snap_o = snapshot_obs(seq[j])
            try:
                action, _ = model.predict(seq[j], deterministic=True)
            except Exception as e:
                rep.violation("predict() raised on a valid observation", case,
                              dict(sig0, kind="exception", exception=type(e).__name__), traceback.format_exc()[-1500:])
                return
            truth = {key: (leaf, [truth_rows[key][j]]) for key, leaf in leaves}
            if not check_features(rep, case, "predict_after_train", tap.fe_inputs, truth, True, sig0):
                return
            if not check_fe_outputs(rep, case, "predict_after_train", tap.fe_outputs, space_keys, truth, 1, True, sig0):
                return
            if isinstance(seq[j], dict):
                # the raw observation with its keys listed in reverse: same features as in training
                first = tap.fe_outputs
                tap.reset()
                a_r, _ = model.predict({k: seq[j][k] for k in reversed(list(seq[j].keys()))}, deterministic=True)
                if a_r.tobytes() != action.tobytes() or len(first) != len(tap.fe_outputs) or not all(
                        fe_equal(x, y) for x, y in zip(first, tap.fe_outputs)):
                    rep.violation("predict() of the same Dict observation depends on the order in which its keys "
                                  "are listed", case, dict(sig0, kind="key_order", order="reversed"))
                    return
            for key, leaf in leaves:
                for cap in tap.fe_inputs:
                    t = cap[key] if isinstance(cap, dict) else cap
                    if features_rows(t)[0].tobytes() != expected[key][j]:
                        rep.violation("training and prediction encode the same observation differently", case,
                                      dict(sig0, kind="train_vs_predict", leaf=leaf["k"]))
                        return
            if not obs_unchanged(seq[j], snap_o):
                rep.violation("predict() changed the observation it was given", case, dict(sig0, kind="obs_mutated"))
            if tuple(action.shape) != act_shape(case["act"]) or not model.action_space.contains(action):
                rep.violation("returned action is not inside the action space", case,
                              dict(sig0, kind="contains", squash=bool(policy.squash_output)),
                              {"action": np.asarray(action).ravel().tolist()})
        rep.agree()
        # model: the encoding of every emitted observation
        for key, leaf in leaves:
            size = int(np.prod(leaf_single_shape(leaf) or [1]))
            if size > 400:
                continue
            for j in range(n):
                oin = seq[j][key] if isinstance(seq[j], dict) else seq[j]
                real = leaf["k"] == "box"
                rws = np.asarray(oin).reshape(1, -1)
                ops.append({"op": "encode", "leaf": leaf_model_json(leaf), "obs": list(np.shape(oin)),
                            "normalize": True, "real": real,
                            "rows": [[q(x) for x in r] for r in rws] if real else [[int(x) for x in r] for r in rws]})
                got = np.frombuffer(expected[key][j], dtype=np.float32).astype(np.float64).reshape(1, -1)
                plan.append(("encode", case, {"train": True}, {"got": got, "leaf": leaf["k"], "image": leaf["k"] == "image"}))
    finally:
        tap.close()


# =============================================================================================
# rejected shapes, rank-0 Box
# =============================================================================================
def dummy_array(leaf, shape):
    k = leaf["k"]
    if k == "box":
        return np.zeros(shape, dtype=np.float32)
    if k == "image":
        return np.zeros(shape, dtype=np.uint8)
    if k == "multibinary":
        return np.zeros(shape, dtype=np.int8)
    return np.zeros(shape, dtype=np.int64)


def run_reject(ctx, case, ops, plan):
    rep = ctx.report
    try:
        model, env = build_model(case)
    except Exception as e:
        rep.violation("model construction failed for a supported space pair", case,
                      dict(sig_base(case), kind="construct", exception=type(e).__name__), traceback.format_exc()[-1500:])
        return
    leaves = dict(leaves_of(case["obs"]))
    for call in case["calls"]:
        if case["obs"]["k"] == "dict":
            obs_in = {}
            for key, shape in call["shapes"]:
                leaf = leaves.get(key, {"k": "box"})
                obs_in[key] = dummy_array(leaf, tuple(shape))
        else:
            obs_in = dummy_array(case["obs"], tuple(call["shape"]))
        explore = bool(call.get("explore"))
        if case["algo"] == "DQN":
            model.exploration_rate = 1.0 if explore else 0.0
        np.random.seed(0)
        try:
            action, _ = model.predict(obs_in, deterministic=False)
            impl = {"shape": list(np.shape(action))}
        except Exception as e:
            impl = {"error": type(e).__name__}
        rep.count("reject:" + ("accepted" if "shape" in impl else impl["error"]))
        ops.append({"op": "shape", "obs_space": obs_model_json(case["obs"]), "act_space": act_model_json(case["act"]),
                    "obs": obs_shape_json(obs_in)})
        plan.append(("reject", case, call, dict(impl, explore=explore)))


def run_rank0(ctx, case, ops, plan):
    rep = ctx.report
    sig = sig_base(case)
    try:
        model, env = build_model(case)
    except Exception as e:
        rep.violation("model construction failed for a supported space pair", case,
                      dict(sig, kind="construct", exception=type(e).__name__), traceback.format_exc()[-1500:])
        return
    rs = np.random.RandomState(case["vseed"])
    b = case["batch"]
    obs_in = np.float32(rs.randint(-8, 9) / 4.0) if b is None else (rs.randint(-8, 9, size=(b,)) / 4.0).astype(np.float32)
    obs_in = np.array(obs_in)
    if case["algo"] == "DQN":
        model.exploration_rate = 0.0
    impl = None
    try:
        action, _ = model.predict(obs_in, deterministic=True)
        exp_shape = act_shape(case["act"]) if b is None else (b,) + act_shape(case["act"])
        impl = {"shape": list(action.shape)}
        if tuple(action.shape) != exp_shape:
            rep.violation("returned action has the wrong shape (batch dimension exactly when the input had one)", case,
                          dict(sig, kind="shape"), {"got": list(action.shape), "expected": list(exp_shape)})
    except Exception as e:
        tb = traceback.format_exc()
        where = "flatten_extractor" if ("flatten" in tb and "torch_layers.py" in tb) or "nn/modules/flatten.py" in tb else "other"
        impl = {"error": type(e).__name__}
        rep.violation("predict() raised on a valid observation", case,
                      dict(sig, kind="exception", exception=type(e).__name__, where=where), tb[-1500:])
    rep.count("rank0:" + ("ok" if "shape" in impl else impl["error"]))
    ops.append({"op": "shape", "obs_space": obs_model_json(case["obs"]), "act_space": act_model_json(case["act"]),
                "obs": obs_shape_json(obs_in)})
    plan.append(("reject", case, {"rank0": True}, dict(impl, explore=False)))


# =============================================================================================
# comparison with the model's answers
# =============================================================================================
def compare(ctx, kind, case, call, impl, mo):
    rep = ctx.report
    if mo is None:
        return
    if kind == "shape":
        if "error" in mo:
            rep.disagree("shape", case, impl, mo)
            return
        if impl["explore"]:
            if mo["explore"] != impl["shape"]:
                rep.disagree("explore", case, impl, mo)
            else:
                rep.agree()
            return
        if mo["predict"] != impl["shape"] or (impl["vec"] is not None and mo["vectorized"] != impl["vec"]):
            rep.disagree("shape", case, impl, mo)
        else:
            rep.agree()
    elif kind == "reject":
        if "error" in mo:
            rep.disagree("reject", case, dict(impl, call=call), mo)
            return
        m = mo["explore"] if impl["explore"] else mo["predict"]
        if "error" in impl:
            ok = isinstance(m, dict) and (
                ERR_CLASS.get(m["error"]) == impl["error"]
                or (m["error"] == "type" and impl["error"] in ("AssertionError", "IndexError", "TypeError",
                                                               "AttributeError", "KeyError")))
        else:
            ok = isinstance(m, list) and m == impl["shape"]
        if ok:
            rep.agree()
        else:
            rep.disagree("reject", case, dict(impl, call=call), mo)
    elif kind == "post":
        if "error" in mo:
            rep.disagree("post_exact", case, impl["act"].tolist(), mo)
            return
        m = [unratj(x) for x in mo["act"]]
        lo = case["act"]["low"] * impl["nb"]
        hi = case["act"]["high"] * impl["nb"]
        for i, (a, mq) in enumerate(zip(impl["act"], m)):
            saturated = abs(impl["raw"][i]) >= 1.0
            if not impl["squash"] or saturated:
                if F(float(a)) != mq:
                    rep.disagree("post_exact", case, {"i": i, "act": float(a), "raw": float(impl["raw"][i]),
                                                      "low": lo[i], "high": hi[i], "squash": impl["squash"]},
                                 {"act": float(mq)})
                    return
            else:
                tol = 1e-6 * (abs(lo[i]) + abs(hi[i]) + abs(hi[i] - lo[i])) + 1e-30
                if abs(float(a) - float(mq)) > tol:
                    rep.disagree("post_float", case, {"i": i, "act": float(a), "raw": float(impl["raw"][i]),
                                                      "low": lo[i], "high": hi[i]}, {"act": float(mq)})
                    return
        if not mo.get("inside"):
            rep.disagree("post_exact", case, "model action outside", mo)
            return
        rep.agree()
    elif kind == "mode":
        if "error" in mo or mo.get("int") != impl["act"] or not mo.get("inside"):
            rep.disagree("mode", case, impl, mo)
        else:
            rep.agree()
    elif kind == "encode":
        if "error" in mo:
            rep.disagree("encode", case, {"leaf": impl["leaf"]}, mo)
            return
        got = impl["got"]
        rows = mo["rows"]
        if len(rows) != got.shape[0]:
            rep.disagree("encode", case, {"rows": int(got.shape[0])}, {"rows": len(rows)})
            return
        for i, r in enumerate(rows):
            if len(r) != got.shape[1]:
                rep.disagree("encode", case, {"len": int(got.shape[1])}, {"len": len(r)})
                return
            for j, x in enumerate(r):
                mq = unratj(x)
                g = F(float(got[i][j]))
                if impl["image"]:
                    okv = abs(g - mq) <= F(1, 2**24)
                else:
                    okv = g == mq
                if not okv:
                    rep.disagree("encode", case, {"row": i, "col": j, "value": float(got[i][j]), "leaf": impl["leaf"]},
                                 {"value": float(mq)})
                    return
        rep.agree()


def nontrivial_key(case):
    if case["kind"] != "predict":
        return None
    big = any((c.get("batch") or 0) >= 2 for c in case["calls"])
    other_layout = any(c.get("layout") == "hwc" for c in case["calls"])
    if big and (case.get("extreme") or other_layout or case["obs"]["k"] == "dict"):
        return case
    return None


def check_cases(ctx, cases):
    rep = ctx.report
    ops, plan = [], []
    for case in cases:
        k = case["kind"]
        rep.count(f"kind:{k}")
        rep.case(case, nontrivial_key(case))
        n0 = rep.n_violations
        try:
            if k == "predict":
                run_predict(ctx, case, ops, plan)
            elif k == "train":
                run_train(ctx, case, ops, plan)
            elif k == "reject":
                run_reject(ctx, case, ops, plan)
            elif k == "rank0":
                run_rank0(ctx, case, ops, plan)
        except Exception as e:  # harness-side problem on this case: report as a violation with the trace (never hide)
            rep.violation("unexpected exception while exercising the implementation", case,
                          dict(sig_base(case), kind="harness_exception", exception=type(e).__name__),
                          traceback.format_exc()[-2000:])
    outs = ctx.lean.run(ops)
    for (kind, case, call, impl), mo in zip(plan, outs):
        compare(ctx, kind, case, call, impl, mo)
