/-
Helper lemmas for C02 (`SB3Verif/Props/C02.lean`): schedule independence of the message-passing model
`SB3Verif.Subproc.Sys` and its equality with the sequential `Dummy`.

Proof architecture
1. `view` abstracts a worker process to (state after it has worked off its inbox, replies the parent has not
   received yet = outbox ++ replies to the inbox). A worker transition does not change any process' view
   (`view_fire`: FIFO determinism + isolation); `send`/`recv` act on the views like an *eager* worker that answers
   at once (`asend`, `arecv`). Hence a parent program under ANY schedule computes what the schedule-free abstract
   run computes (`runProg_refines`).
2. On quiescent views (nothing pending) "send to all targets, then receive from all targets" equals calling the
   workers one after the other (`arun_program`), because a receive commutes to the front of later sends
   (`arecv_asends`).
3. The sequential worker calls are `DummyVecEnv`'s loop when `reset_infos[i]` is paired with `envs[i]`
   (`Dummy.loop_eq`).
-/
import SB3Verif.Model.Subproc

namespace SB3Verif.Subproc

variable {σ α ω ρ : Type}

/-! ### generic list facts -/

theorem upd_map {β γ : Type} (l : List β) (i : Nat) (f : β → β) (g : β → γ) (f' : γ → γ)
    (h : ∀ b, g (f b) = f' (g b)) : (upd l i f).map g = upd (l.map g) i f' := by
  unfold upd
  cases hi : l[i]? with
  | none => simp [hi]
  | some b => simp [hi, List.map_set, h]

theorem upd_length {β : Type} (l : List β) (i : Nat) (f : β → β) : (upd l i f).length = l.length := by
  unfold upd
  cases l[i]? <;> simp

theorem set_self {β : Type} (l : List β) (i : Nat) (b : β) (h : l[i]? = some b) : l.set i b = l := by
  apply List.ext_getElem?
  intro k
  rw [List.getElem?_set]
  split
  · next hik => subst hik; split <;> simp_all
  · rfl

theorem upd_some {β : Type} (l : List β) (i : Nat) (f : β → β) (b : β) (h : l[i]? = some b) :
    upd l i f = l.set i (f b) := by
  simp [upd, h]

theorem upd_none {β : Type} (l : List β) (i : Nat) (f : β → β) (h : l[i]? = none) : upd l i f = l := by
  simp [upd, h]

theorem getElem?_set_self' {β : Type} (l : List β) (i : Nat) (b c : β) (h : l[i]? = some c) :
    (l.set i b)[i]? = some b := by
  have hlt : i < l.length := by
    rcases Nat.lt_or_ge i l.length with h' | h'
    · exact h'
    · rw [List.getElem?_eq_none h'] at h; cases h
  simp [hlt]

/-! ### a worker working off a queue of commands -/

def runCmds (E : EnvSem σ α ω ρ) (w : W σ ω) : List (Cmd α ω) → W σ ω × List (Reply ω ρ)
  | [] => (w, [])
  | c :: cs =>
    ((runCmds E (Worker.react E w c).1 cs).1, (Worker.react E w c).2 :: (runCmds E (Worker.react E w c).1 cs).2)

theorem runCmds_append (E : EnvSem σ α ω ρ) (w : W σ ω) (cs : List (Cmd α ω)) (c : Cmd α ω) :
    runCmds E w (cs ++ [c]) =
      ((Worker.react E (runCmds E w cs).1 c).1, (runCmds E w cs).2 ++ [(Worker.react E (runCmds E w cs).1 c).2]) := by
  induction cs generalizing w with
  | nil => simp [runCmds]
  | cons d ds ih => simp [runCmds, ih]

/-- abstract worker: (state once the inbox is worked off, replies not yet received by the parent) -/
abbrev AProc (σ ω ρ : Type) := W σ ω × List (Reply ω ρ)

def view (E : EnvSem σ α ω ρ) (p : Proc σ α ω ρ) : AProc σ ω ρ :=
  ((runCmds E p.w p.inbox).1, p.outbox ++ (runCmds E p.w p.inbox).2)

def asendP (E : EnvSem σ α ω ρ) (a : AProc σ ω ρ) (c : Cmd α ω) : AProc σ ω ρ :=
  ((Worker.react E a.1 c).1, a.2 ++ [(Worker.react E a.1 c).2])

def arecvP (a : AProc σ ω ρ) : Option (AProc σ ω ρ × Reply ω ρ) :=
  match a.2 with
  | [] => none
  | r :: q => some ((a.1, q), r)

theorem view_fire (E : EnvSem σ α ω ρ) (p : Proc σ α ω ρ) : view E (p.fire E) = view E p := by
  unfold Proc.fire view
  cases h : p.inbox with
  | nil => simp [h]
  | cons c cs => simp [runCmds, List.append_assoc]

theorem view_send (E : EnvSem σ α ω ρ) (p : Proc σ α ω ρ) (c : Cmd α ω) :
    view E (p.send c) = asendP E (view E p) c := by
  simp [Proc.send, view, asendP, runCmds_append, List.append_assoc]

theorem view_recv (E : EnvSem σ α ω ρ) (p : Proc σ α ω ρ) :
    (p.recv E).map (fun x => (view E x.1, x.2)) = arecvP (view E p) := by
  unfold Proc.recv view arecvP
  cases ho : p.outbox with
  | cons r rest => simp
  | nil =>
    cases hi : p.inbox with
    | nil => simp [runCmds]
    | cons c cs => simp [runCmds]

/-! ### the abstract (schedule-free, eager) system -/

def asend (E : EnvSem σ α ω ρ) (aps : List (AProc σ ω ρ)) (i : Nat) (c : Cmd α ω) : List (AProc σ ω ρ) :=
  upd aps i (fun a => asendP E a c)

def arecv (aps : List (AProc σ ω ρ)) (i : Nat) : Option (List (AProc σ ω ρ) × Reply ω ρ) :=
  match aps[i]? with
  | none => none
  | some a =>
    match arecvP a with
    | none => none
    | some x => some (aps.set i x.1, x.2)

def arunProg (E : EnvSem σ α ω ρ) (aps : List (AProc σ ω ρ)) :
    List (PAct α ω) → Option (List (AProc σ ω ρ) × List (Reply ω ρ))
  | [] => some (aps, [])
  | .send i c :: rest => arunProg E (asend E aps i c) rest
  | .recv i :: rest =>
    match arecv aps i with
    | none => none
    | some x =>
      match arunProg E x.1 rest with
      | none => none
      | some y => some (y.1, x.2 :: y.2)

theorem views_fire (E : EnvSem σ α ω ρ) (ps : List (Proc σ α ω ρ)) (j : Nat) :
    (fire E ps j).map (view E) = ps.map (view E) := by
  unfold fire
  rw [upd_map ps j (Proc.fire E) (view E) id (fun b => view_fire E b)]
  unfold upd
  cases h : (ps.map (view E))[j]? with
  | none => rfl
  | some b =>
    simp only [id]
    exact set_self _ j b h

theorem views_fireAll (E : EnvSem σ α ω ρ) (ps : List (Proc σ α ω ρ)) (js : List Nat) :
    (fireAll E ps js).map (view E) = ps.map (view E) := by
  unfold fireAll
  induction js generalizing ps with
  | nil => rfl
  | cons j js ih => simp only [List.foldl_cons]; rw [ih, views_fire]

theorem views_send (E : EnvSem σ α ω ρ) (ps : List (Proc σ α ω ρ)) (i : Nat) (c : Cmd α ω) :
    (send ps i c).map (view E) = asend E (ps.map (view E)) i c := by
  unfold send asend
  exact upd_map ps i _ (view E) _ (fun b => view_send E b c)

theorem views_recv (E : EnvSem σ α ω ρ) (ps : List (Proc σ α ω ρ)) (i : Nat) :
    (recv E ps i).map (fun x => (x.1.map (view E), x.2)) = arecv (ps.map (view E)) i := by
  unfold recv arecv
  cases h : ps[i]? with
  | none => simp [h]
  | some p =>
    have hv := view_recv E p
    simp only [List.getElem?_map, h, Option.map_some]
    cases hr : p.recv E with
    | none => rw [hr] at hv; simp at hv; simp [← hv]
    | some x => rw [hr] at hv; simp at hv; simp [← hv, List.map_set]

/-- **Schedule independence.** Whatever worker transitions the schedule interleaves, a parent program produces
the replies (and leaves the views) of the schedule-free eager system; in particular it dead-locks under one
schedule iff it does under every schedule. -/
theorem runProg_refines (E : EnvSem σ α ω ρ) (ps : List (Proc σ α ω ρ)) (sch : Sched) (prog : List (PAct α ω)) :
    (runProg E ps sch prog).map (fun x => (x.1.map (view E), x.2.2)) = arunProg E (ps.map (view E)) prog := by
  induction prog generalizing ps sch with
  | nil => simp [runProg, arunProg]
  | cons a rest ih =>
    cases a with
    | send i c =>
      simp only [runProg, arunProg]
      rw [ih, views_send, views_fireAll]
    | recv i =>
      simp only [runProg, arunProg]
      have hr := views_recv E (fireAll E ps (sch.headD [])) i
      rw [views_fireAll] at hr
      cases h1 : recv E (fireAll E ps (sch.headD [])) i with
      | none => rw [h1] at hr; simp at hr; simp [← hr]
      | some x =>
        rw [h1] at hr; simp at hr
        rw [← hr]
        simp only
        have ih' := ih x.1 sch.tail
        cases h2 : runProg E x.1 sch.tail rest with
        | none => rw [h2] at ih'; simp at ih'; simp [← ih']
        | some y => rw [h2] at ih'; simp at ih'; simp [← ih']

/-- A parent program may be cut anywhere into two calls (e.g. `step_async` / `step_wait`): the second call continues
with the pipes and the rest of the schedule left by the first. -/
theorem runProg_append (E : EnvSem σ α ω ρ) (ps : List (Proc σ α ω ρ)) (sch : Sched) (A B : List (PAct α ω)) :
    runProg E ps sch (A ++ B) =
      (runProg E ps sch A).bind fun x =>
        (runProg E x.1 x.2.1 B).map fun y => (y.1, y.2.1, x.2.2 ++ y.2.2) := by
  induction A generalizing ps sch with
  | nil =>
    simp only [List.nil_append, runProg, Option.bind_some, List.nil_append]
    cases runProg E ps sch B <;> rfl
  | cons a rest ih =>
    cases a with
    | send i c => simp only [List.cons_append, runProg]; exact ih _ _
    | recv i =>
      simp only [List.cons_append, runProg]
      cases recv E (fireAll E ps (sch.headD [])) i with
      | none => rfl
      | some x =>
        simp only []
        rw [ih]
        cases runProg E x.1 sch.tail rest with
        | none => rfl
        | some y =>
          simp only [Option.bind_some]
          cases runProg E y.1 y.2.1 B <;> rfl

/-- sending never blocks and returns nothing -/
theorem runProg_sends (E : EnvSem σ α ω ρ) (ps : List (Proc σ α ω ρ)) (sch : Sched) (pl : List (Nat × Cmd α ω)) :
    ∃ ps' sch', runProg E ps sch (pl.map fun x => PAct.send x.1 x.2) = some (ps', sch', []) := by
  induction pl generalizing ps sch with
  | nil => exact ⟨ps, sch, rfl⟩
  | cons x rest ih => simp only [List.map_cons, runProg]; exact ih _ _

/-! ### send-all-then-receive-all = one call after the other -/

/-- calling the workers one after the other, in the order of the plan -/
def seqCalls (E : EnvSem σ α ω ρ) (ws : List (W σ ω)) : List (Nat × Cmd α ω) → List (W σ ω) × List (Reply ω ρ)
  | [] => (ws, [])
  | (i, c) :: rest =>
    match ws[i]? with
    | none => ((seqCalls E ws rest).1, .val .none :: (seqCalls E ws rest).2)
    | some w =>
      ((seqCalls E (ws.set i (Worker.react E w c).1) rest).1,
        (Worker.react E w c).2 :: (seqCalls E (ws.set i (Worker.react E w c).1) rest).2)

def quiet (ws : List (W σ ω)) : List (AProc σ ω ρ) := ws.map fun w => (w, [])

def asends (E : EnvSem σ α ω ρ) (aps : List (AProc σ ω ρ)) : List (Nat × Cmd α ω) → List (AProc σ ω ρ)
  | [] => aps
  | (i, c) :: rest => asends E (asend E aps i c) rest

theorem arunProg_sends (E : EnvSem σ α ω ρ) (aps : List (AProc σ ω ρ)) (pl : List (Nat × Cmd α ω))
    (prog : List (PAct α ω)) :
    arunProg E aps (pl.map (fun x => PAct.send x.1 x.2) ++ prog) = arunProg E (asends E aps pl) prog := by
  induction pl generalizing aps with
  | nil => rfl
  | cons x rest ih => obtain ⟨i, c⟩ := x; simp only [List.map_cons, List.cons_append, arunProg, asends]; exact ih _

/-- A reply that is already waiting in pipe `i` stays the oldest one whatever is sent afterwards, to whomever:
receiving it after the sends = receiving it before them. -/
theorem arecv_asends (E : EnvSem σ α ω ρ) (pl : List (Nat × Cmd α ω)) (aps : List (AProc σ ω ρ)) (i : Nat)
    (w : W σ ω) (r : Reply ω ρ) (q : List (Reply ω ρ)) (h : aps[i]? = some (w, r :: q)) :
    arecv (asends E aps pl) i = some (asends E (aps.set i (w, q)) pl, r) := by
  induction pl generalizing aps w q with
  | nil =>
    simp [asends, arecv, h, arecvP]
  | cons x rest ih =>
    obtain ⟨j, c⟩ := x
    simp only [asends]
    by_cases hji : j = i
    · subst hji
      have h1 : (asend E aps j c)[j]? = some ((Worker.react E w c).1, r :: (q ++ [(Worker.react E w c).2])) := by
        unfold asend
        rw [upd_some _ _ _ _ h, getElem?_set_self' _ _ _ _ h]
        simp [asendP]
      rw [ih _ _ _ h1]
      congr 2
      unfold asend
      rw [upd_some _ _ _ _ h, upd_some _ _ _ _ (getElem?_set_self' _ _ _ _ h)]
      simp [asendP, List.set_set]
    · have h1 : (asend E aps j c)[i]? = some (w, r :: q) := by
        unfold asend
        cases hj : aps[j]? with
        | none => rw [upd_none _ _ _ hj]; exact h
        | some a => rw [upd_some _ _ _ _ hj, List.getElem?_set_ne hji]; exact h
      rw [ih _ _ _ h1]
      congr 2
      unfold asend
      cases hj : aps[j]? with
      | none =>
        rw [upd_none _ _ _ hj, upd_none]
        rw [List.getElem?_set_ne (Ne.symm hji)]; exact hj
      | some a =>
        rw [upd_some _ _ _ _ hj, upd_some (b := a)]
        · rw [List.set_comm _ _ hji]
        · rw [List.getElem?_set_ne (Ne.symm hji)]; exact hj

theorem seqCalls_length (E : EnvSem σ α ω ρ) (ws : List (W σ ω)) (pl : List (Nat × Cmd α ω)) :
    (seqCalls E ws pl).1.length = ws.length := by
  induction pl generalizing ws with
  | nil => rfl
  | cons x rest ih =>
    obtain ⟨i, c⟩ := x
    simp only [seqCalls]
    cases ws[i]? with
    | none => exact ih ws
    | some w => simp only []; rw [ih]; simp

/-- **Send to all targets, then receive from all targets = one call after the other**, from a state in which no
reply is pending, for every plan (any order, repetitions allowed) that addresses existing workers. Never dead-locks. -/
theorem arun_program (E : EnvSem σ α ω ρ) (pl : List (Nat × Cmd α ω)) (ws : List (W σ ω))
    (hv : ∀ x ∈ pl, x.1 < ws.length) :
    arunProg E (quiet ws) (program pl) = some (quiet (seqCalls E ws pl).1, (seqCalls E ws pl).2) := by
  induction pl generalizing ws with
  | nil => simp [program, arunProg, seqCalls]
  | cons x rest ih =>
    obtain ⟨i, c⟩ := x
    have hi : i < ws.length := hv (i, c) (by simp)
    have hw : ws[i]? = some ws[i] := List.getElem?_eq_getElem hi
    have hq : (quiet ws : List (AProc σ ω ρ))[i]? = some (ws[i], []) := by simp [quiet, hw]
    have hrest : ∀ x ∈ rest, x.1 < (ws.set i (Worker.react E ws[i] c).1).length := by
      intro x hx; rw [List.length_set]; exact hv x (by simp [hx])
    simp only [program, List.map_cons, List.cons_append, arunProg]
    rw [arunProg_sends]
    simp only [arunProg]
    have h1 : (asend E (quiet ws) i c)[i]? =
        some ((Worker.react E ws[i] c).1, (Worker.react E ws[i] c).2 :: []) := by
      unfold asend
      rw [upd_some _ _ _ _ hq, getElem?_set_self' _ _ _ _ hq]
      simp [asendP]
    rw [arecv_asends E rest _ i _ _ _ h1]
    simp only []
    have h2 : (asend E (quiet ws) i c).set i ((Worker.react E ws[i] c).1, []) =
        (quiet (ws.set i (Worker.react E ws[i] c).1) : List (AProc σ ω ρ)) := by
      unfold asend
      rw [upd_some _ _ _ _ hq]
      simp [quiet, List.map_set, List.set_set]
    rw [h2, ← arunProg_sends]
    have := ih _ hrest
    simp only [program] at this
    rw [this]
    simp [seqCalls, hw]

/-! ### `DummyVecEnv`'s loop = the sequential worker calls -/

theorem zipWith_set_both {β γ δ : Type} (f : β → γ → δ) (l1 : List β) (l2 : List γ) (i : Nat) (a : β) (b : γ) :
    List.zipWith f (l1.set i a) (l2.set i b) = (List.zipWith f l1 l2).set i (f a b) := by
  induction l1 generalizing l2 i with
  | nil => simp
  | cons x xs ih =>
    cases l2 with
    | nil => simp
    | cons y ys =>
      cases i with
      | zero => simp
      | succ k => simp [ih]

theorem zipWith_set_left {β γ δ : Type} (f : β → γ → δ) (l1 : List β) (l2 : List γ) (i : Nat) (a : β) (b : γ)
    (h : l2[i]? = some b) : List.zipWith f (l1.set i a) l2 = (List.zipWith f l1 l2).set i (f a b) := by
  have : l2 = l2.set i b := (set_self l2 i b h).symm
  conv => lhs; rw [this]
  exact zipWith_set_both f l1 l2 i a b

/-- the worker-shaped reading of `DummyVecEnv`'s state: `envs[i]` paired with `reset_infos[i]` -/
def Dummy.ws (d : Dummy σ ω) : List (W σ ω) := List.zipWith W.mk d.envs d.resetInfos

theorem Dummy.ws_getElem? (d : Dummy σ ω) (i : Nat) :
    (Dummy.ws d)[i]? = match d.envs[i]?, d.resetInfos[i]? with
      | some e, some ri => some ⟨e, ri⟩
      | _, _ => none := by
  unfold Dummy.ws
  rw [List.getElem?_zipWith]
  cases d.envs[i]? <;> cases d.resetInfos[i]? <;> rfl

theorem Dummy.ws_resetInfos (d : Dummy σ ω) (h : d.envs.length = d.resetInfos.length) :
    (Dummy.ws d).map (fun w => w.resetInfo) = d.resetInfos := by
  unfold Dummy.ws
  generalize d.envs = l1 at h
  generalize d.resetInfos = l2 at h
  induction l1 generalizing l2 with
  | nil => cases l2 <;> simp_all
  | cons x xs ih =>
    cases l2 with
    | nil => simp at h
    | cons y ys => simp at h; simp [ih ys h]

theorem Dummy.ws_envs (d : Dummy σ ω) (h : d.envs.length = d.resetInfos.length) :
    (Dummy.ws d).map (fun w => w.env) = d.envs := by
  unfold Dummy.ws
  generalize d.envs = l1 at h
  generalize d.resetInfos = l2 at h
  induction l1 generalizing l2 with
  | nil => cases l2 <;> simp_all
  | cons x xs ih =>
    cases l2 with
    | nil => simp at h
    | cons y ys => simp at h; simp [ih ys h]

/-- one loop iteration of `DummyVecEnv` = one reaction of the worker holding `(envs[i], reset_infos[i])` -/
theorem Dummy.callEnv_eq (E : EnvSem σ α ω ρ) (d : Dummy σ ω) (i : Nat) (c : Cmd α ω) (w : W σ ω)
    (hlen : d.envs.length = d.resetInfos.length) (hw : (Dummy.ws d)[i]? = some w) :
    (Dummy.callEnv E d i c).2 = (Worker.react E w c).2 ∧
    Dummy.ws (Dummy.callEnv E d i c).1 = (Dummy.ws d).set i (Worker.react E w c).1 ∧
    (Dummy.callEnv E d i c).1.envs.length = (Dummy.callEnv E d i c).1.resetInfos.length ∧
    (Dummy.callEnv E d i c).1.envs.length = d.envs.length ∧
    (Dummy.callEnv E d i c).1.seeds = d.seeds ∧ (Dummy.callEnv E d i c).1.options = d.options := by
  rw [Dummy.ws_getElem?] at hw
  cases he : d.envs[i]? with
  | none => simp [he] at hw
  | some e =>
    cases hr : d.resetInfos[i]? with
    | none => simp [he, hr] at hw
    | some ri =>
      simp [he, hr] at hw
      subst hw
      have hws : (Dummy.ws d)[i]? = some ⟨e, ri⟩ := by rw [Dummy.ws_getElem?]; simp [he, hr]
      unfold Dummy.callEnv
      simp only [he]
      cases c with
      | step a =>
        simp only [Worker.react]
        split
        · refine ⟨?_, ?_, ?_, ?_, ?_, ?_⟩
          all_goals first
            | trivial
            | rfl
            | (simp only [Dummy.ws]; exact zipWith_set_both _ _ _ _ _ _)
            | simp [hlen]
        · refine ⟨?_, ?_, ?_, ?_, ?_, ?_⟩
          all_goals first
            | trivial
            | rfl
            | (simp only [Dummy.ws]; exact zipWith_set_left _ _ _ _ _ _ hr)
            | simp [hlen, hr]
      | reset seed opts =>
        simp only [Worker.react]
        refine ⟨?_, ?_, ?_, ?_, ?_, ?_⟩
        all_goals first
          | trivial
          | rfl
          | (simp only [Dummy.ws]; exact zipWith_set_both _ _ _ _ _ _)
          | simp [hlen]
      | getAttr name =>
        simp only [Worker.react]
        refine ⟨?_, ?_, ?_, ?_, ?_, ?_⟩
        all_goals first
          | trivial
          | rfl
          | exact hlen
          | exact (set_self _ i _ hws).symm
      | setAttr name v =>
        simp only [Worker.react]
        refine ⟨?_, ?_, ?_, ?_, ?_, ?_⟩
        all_goals first
          | trivial
          | rfl
          | (simp only [Dummy.ws]; exact zipWith_set_left _ _ _ _ _ _ hr)
          | simp [hlen]
      | envMethod name args =>
        simp only [Worker.react]
        refine ⟨?_, ?_, ?_, ?_, ?_, ?_⟩
        all_goals first
          | trivial
          | rfl
          | (simp only [Dummy.ws]; exact zipWith_set_left _ _ _ _ _ _ hr)
          | simp [hlen]
      | isWrapped cls =>
        simp only [Worker.react]
        refine ⟨?_, ?_, ?_, ?_, ?_, ?_⟩
        all_goals first
          | trivial
          | rfl
          | exact hlen
          | exact (set_self _ i _ hws).symm
      | close =>
        simp only [Worker.react]
        refine ⟨?_, ?_, ?_, ?_, ?_, ?_⟩
        all_goals first
          | trivial
          | rfl
          | (simp only [Dummy.ws]; exact zipWith_set_left _ _ _ _ _ _ hr)
          | simp [hlen]

theorem Dummy.callEnv_none (E : EnvSem σ α ω ρ) (d : Dummy σ ω) (i : Nat) (c : Cmd α ω)
    (hlen : d.envs.length = d.resetInfos.length) (hw : (Dummy.ws d)[i]? = none) :
    Dummy.callEnv E d i c = (d, .val .none) := by
  have : d.envs[i]? = none := by
    have h1 : (Dummy.ws d).length = d.envs.length := by simp [Dummy.ws, hlen]
    rw [List.getElem?_eq_none_iff] at hw ⊢
    omega
  simp [Dummy.callEnv, this]

/-- **The sequential loops of `DummyVecEnv` are the one-after-the-other worker calls.** -/
theorem Dummy.loop_eq (E : EnvSem σ α ω ρ) (pl : List (Nat × Cmd α ω)) (d : Dummy σ ω)
    (hlen : d.envs.length = d.resetInfos.length) :
    (Dummy.loop E d pl).2 = (seqCalls E (Dummy.ws d) pl).2 ∧
    Dummy.ws (Dummy.loop E d pl).1 = (seqCalls E (Dummy.ws d) pl).1 ∧
    (Dummy.loop E d pl).1.envs.length = (Dummy.loop E d pl).1.resetInfos.length ∧
    (Dummy.loop E d pl).1.envs.length = d.envs.length ∧
    (Dummy.loop E d pl).1.seeds = d.seeds ∧ (Dummy.loop E d pl).1.options = d.options := by
  induction pl generalizing d with
  | nil => simp [Dummy.loop, seqCalls, hlen]
  | cons x rest ih =>
    obtain ⟨i, c⟩ := x
    simp only [Dummy.loop, seqCalls]
    cases hw : (Dummy.ws d)[i]? with
    | none =>
      rw [Dummy.callEnv_none E d i c hlen hw]
      obtain ⟨h1, h2, h3, h4, h5, h6⟩ := ih d hlen
      exact ⟨by simp [h1], h2, h3, h4, h5, h6⟩
    | some w =>
      obtain ⟨g1, g2, g3, g4, g5, g6⟩ := Dummy.callEnv_eq E d i c w hlen hw
      obtain ⟨h1, h2, h3, h4, h5, h6⟩ := ih (Dummy.callEnv E d i c).1 g3
      simp only []
      rw [g2] at h1 h2
      exact ⟨by rw [g1, h1], h2, h3, by rw [h4, g4], by rw [h5, g5], by rw [h6, g6]⟩

/-! ### `reset_infos` gathered from the replies = the workers' local `reset_info` -/

def Cmd.resetting : Cmd α ω → Prop
  | .step _ => True
  | .reset _ _ => True
  | _ => False

theorem react_resetInfo (E : EnvSem σ α ω ρ) (w : W σ ω) (c : Cmd α ω) (h : c.resetting) :
    (Worker.react E w c).2.resetInfo? = some (Worker.react E w c).1.resetInfo := by
  cases c with
  | step a => simp only [Worker.react]; split <;> rfl
  | reset seed opts => rfl
  | getAttr _ => cases h
  | setAttr _ _ => cases h
  | envMethod _ _ => cases h
  | isWrapped _ => cases h
  | close => cases h

theorem zipWith_react_resetInfo (E : EnvSem σ α ω ρ) (ws : List (W σ ω)) (acts : List α) :
    (List.zipWith (fun w a => (Worker.react E w (Cmd.step a)).2) ws acts).filterMap Reply.resetInfo? =
      (List.zipWith (fun w a => (Worker.react E w (Cmd.step a)).1) ws acts).map (fun w => w.resetInfo) := by
  induction ws generalizing acts with
  | nil => simp
  | cons w ws ih =>
    cases acts with
    | nil => simp
    | cons a as =>
      simp only [List.zipWith_cons_cons, List.filterMap_cons, List.map_cons]
      rw [react_resetInfo E w (Cmd.step a) trivial, ih]

theorem indexedFrom_lt {β : Type} (k : Nat) (cs : List β) : ∀ x ∈ indexedFrom k cs, x.1 < k + cs.length := by
  induction cs generalizing k with
  | nil => simp [indexedFrom]
  | cons c cs ih =>
    intro x hx
    simp only [indexedFrom, List.mem_cons] at hx
    rcases hx with rfl | hx
    · simp
    · have := ih (k + 1) x hx; simp only [List.length_cons]; omega

theorem seqCalls_indexed (E : EnvSem σ α ω ρ) (cs : List (Cmd α ω)) (pre mid : List (W σ ω))
    (hlen : cs.length = mid.length) (hr : ∀ c ∈ cs, c.resetting) :
    ∃ mid', (seqCalls E (pre ++ mid) (indexedFrom pre.length cs)).1 = pre ++ mid' ∧
      (seqCalls E (pre ++ mid) (indexedFrom pre.length cs)).2.filterMap Reply.resetInfo? =
        mid'.map (fun w => w.resetInfo) := by
  induction cs generalizing pre mid with
  | nil =>
    cases mid with
    | nil => exact ⟨[], by simp [indexedFrom, seqCalls]⟩
    | cons m ms => simp at hlen
  | cons c cs ih =>
    cases mid with
    | nil => simp at hlen
    | cons m ms =>
      simp only [List.length_cons, Nat.add_right_cancel_iff] at hlen
      have hget : (pre ++ m :: ms)[pre.length]? = some m := by simp
      have hset : (pre ++ m :: ms).set pre.length (Worker.react E m c).1 =
          (pre ++ [(Worker.react E m c).1]) ++ ms := by simp
      have hidx : pre.length + 1 = (pre ++ [(Worker.react E m c).1]).length := by simp
      obtain ⟨mid', h1, h2⟩ := ih (pre ++ [(Worker.react E m c).1]) ms hlen (fun c' hc' => hr c' (by simp [hc']))
      refine ⟨(Worker.react E m c).1 :: mid', ?_, ?_⟩
      · simp only [indexedFrom, seqCalls, hget]
        rw [hset, hidx, h1]; simp
      · simp only [indexedFrom, seqCalls, hget]
        rw [hset, hidx, List.filterMap_cons, react_resetInfo E m c (hr c (by simp)), h2]; simp

theorem seqCalls_indexed_replies (E : EnvSem σ α ω ρ) (cs : List (Cmd α ω)) (pre mid : List (W σ ω))
    (hlen : cs.length = mid.length) :
    (seqCalls E (pre ++ mid) (indexedFrom pre.length cs)).2 =
      List.zipWith (fun w c => (Worker.react E w c).2) mid cs := by
  induction cs generalizing pre mid with
  | nil =>
    cases mid with
    | nil => simp [indexedFrom, seqCalls]
    | cons m ms => simp at hlen
  | cons c cs ih =>
    cases mid with
    | nil => simp at hlen
    | cons m ms =>
      simp only [List.length_cons, Nat.add_right_cancel_iff] at hlen
      have hget : (pre ++ m :: ms)[pre.length]? = some m := by simp
      have hset : (pre ++ m :: ms).set pre.length (Worker.react E m c).1 =
          (pre ++ [(Worker.react E m c).1]) ++ ms := by simp
      have hidx : pre.length + 1 = (pre ++ [(Worker.react E m c).1]).length := by simp
      simp only [indexedFrom, seqCalls, hget, List.zipWith_cons_cons]
      rw [hset, hidx, ih _ ms hlen]

theorem seqCalls_indexed0 (E : EnvSem σ α ω ρ) (cs : List (Cmd α ω)) (ws : List (W σ ω))
    (hlen : cs.length = ws.length) (hr : ∀ c ∈ cs, c.resetting) :
    (seqCalls E ws (indexedFrom 0 cs)).2.filterMap Reply.resetInfo? =
      (seqCalls E ws (indexedFrom 0 cs)).1.map (fun w => w.resetInfo) := by
  obtain ⟨mid', h1, h2⟩ := seqCalls_indexed E cs [] ws hlen hr
  simp only [List.length_nil, List.nil_append] at h1 h2
  rw [h1, h2]

/-! ### the simulation relation and one public operation -/

/-- `SubprocVecEnv` state `s` and `DummyVecEnv` state `d` are in step: no reply is pending, every worker — once it has
worked off its pipe — holds Dummy's `envs[i]` and, in its local variable `reset_info`, Dummy's `reset_infos[i]`;
the parents' `reset_infos`, `_seeds`, `_options` coincide. -/
structure Rel (E : EnvSem σ α ω ρ) (s : Sys σ α ω ρ) (d : Dummy σ ω) : Prop where
  views : s.procs.map (view E) = quiet (Dummy.ws d)
  ri : s.resetInfos = d.resetInfos
  seeds : s.seeds = d.seeds
  options : s.options = d.options
  len : d.envs.length = d.resetInfos.length

theorem Rel.n (E : EnvSem σ α ω ρ) {s : Sys σ α ω ρ} {d : Dummy σ ω} (R : Rel E s d) :
    s.procs.length = d.envs.length := by
  have := congrArg List.length R.views
  simp [quiet, Dummy.ws, R.len] at this
  rw [this, R.len]

theorem Rel.init (E : EnvSem σ α ω ρ) (envs : List σ) : Rel E (Sys.init envs : Sys σ α ω ρ) (Dummy.init envs) := by
  refine ⟨?_, rfl, rfl, rfl, by simp [Dummy.init]⟩
  simp only [Sys.init, Dummy.init, quiet, Dummy.ws, List.map_map]
  induction envs with
  | nil => rfl
  | cons e es ih =>
    simp only [List.map_cons, List.length_cons, List.replicate_succ, List.zipWith_cons_cons]
    rw [ih]
    simp [view, runCmds]

theorem plan_valid (n : Nat) (seeds : List (Option Int)) (options : List Opts) (op : Op α ω) (hv : op.valid n) :
    ∀ x ∈ plan n seeds options op, x.1 < n := by
  cases op with
  | seed s => simp [plan]
  | setOptions o => simp [plan]
  | reset =>
    intro x hx
    have := indexedFrom_lt 0 _ x hx
    simpa using this
  | step acts =>
    intro x hx
    have := indexedFrom_lt 0 _ x hx
    simp only [Op.valid] at hv
    simpa [hv] using this
  | getAttr name idx =>
    intro x hx
    simp only [plan, List.mem_map] at hx
    obtain ⟨i, hi, rfl⟩ := hx
    exact hv i hi
  | setAttr name v idx =>
    intro x hx
    simp only [plan, List.mem_map] at hx
    obtain ⟨i, hi, rfl⟩ := hx
    exact hv i hi
  | envMethod name args idx =>
    intro x hx
    simp only [plan, List.mem_map] at hx
    obtain ⟨i, hi, rfl⟩ := hx
    exact hv i hi
  | isWrapped cls idx =>
    intro x hx
    simp only [plan, List.mem_map] at hx
    obtain ⟨i, hi, rfl⟩ := hx
    exact hv i hi

theorem plan_reset_resetting (n : Nat) (seeds : List (Option Int)) (options : List Opts) :
    ∀ c ∈ ((List.range n).map fun i => (Cmd.reset (seeds.getD i none) (options.getD i []) : Cmd α ω)),
      c.resetting := by
  intro c hc
  simp only [List.mem_map] at hc
  obtain ⟨i, _, rfl⟩ := hc
  trivial

theorem plan_step_resetting (acts : List α) : ∀ c ∈ (acts.map (Cmd.step : α → Cmd α ω)), c.resetting := by
  intro c hc
  simp only [List.mem_map] at hc
  obtain ⟨a, _, rfl⟩ := hc
  trivial

theorem Dummy.callEnv_resetInfos (E : EnvSem σ α ω ρ) (d : Dummy σ ω) (i : Nat) (c : Cmd α ω)
    (h : ¬ c.resetting) : (Dummy.callEnv E d i c).1.resetInfos = d.resetInfos := by
  unfold Dummy.callEnv
  cases d.envs[i]? with
  | none => rfl
  | some e =>
    cases c with
    | step a => exact absurd trivial h
    | reset seed opts => exact absurd trivial h
    | getAttr _ => rfl
    | setAttr _ _ => rfl
    | envMethod _ _ => rfl
    | isWrapped _ => rfl
    | close => rfl

theorem Dummy.loop_resetInfos (E : EnvSem σ α ω ρ) (pl : List (Nat × Cmd α ω)) (d : Dummy σ ω)
    (h : ∀ x ∈ pl, ¬ x.2.resetting) : (Dummy.loop E d pl).1.resetInfos = d.resetInfos := by
  induction pl generalizing d with
  | nil => rfl
  | cons x rest ih =>
    obtain ⟨i, c⟩ := x
    simp only [Dummy.loop]
    rw [ih _ (fun y hy => h y (by simp [hy])), Dummy.callEnv_resetInfos E d i c (h (i, c) (by simp))]

/-- bookkeeping after the receive loop: if the pipes are drained onto Dummy's post-loop state and the replies are
Dummy's, the return values agree and the objects are in step again -/
theorem post_equiv (E : EnvSem σ α ω ρ) (s : Sys σ α ω ρ) (d : Dummy σ ω) (op : Op α ω)
    (procs : List (Proc σ α ω ρ)) (replies : List (Reply ω ρ))
    (hn : s.procs.length = d.envs.length) (hri : s.resetInfos = d.resetInfos) (hseeds : s.seeds = d.seeds)
    (hoptions : s.options = d.options) (hlen : d.envs.length = d.resetInfos.length)
    (hv : op.valid d.envs.length)
    (hviews : procs.map (view E) =
      quiet (Dummy.ws (Dummy.loop E d (plan d.envs.length d.seeds d.options op)).1))
    (hrep : replies = (Dummy.loop E d (plan d.envs.length d.seeds d.options op)).2) :
    assemble op d.envs.length replies (Sys.post s procs replies op).resetInfos = (Dummy.runOpRaw E d op).2 ∧
    Rel E (Sys.post s procs replies op) (Dummy.runOpRaw E d op).1 := by
  have hwl : (Dummy.ws d).length = d.envs.length := by simp [Dummy.ws, hlen]
  obtain ⟨l1, l2, l3, l4, l5, l6⟩ := Dummy.loop_eq E (plan d.envs.length d.seeds d.options op) d hlen
  have hgather : ∀ cs : List (Cmd α ω), cs.length = d.envs.length → (∀ c ∈ cs, c.resetting) →
      plan d.envs.length d.seeds d.options op = indexedFrom 0 cs →
      replies.filterMap Reply.resetInfo? =
        (Dummy.loop E d (plan d.envs.length d.seeds d.options op)).1.resetInfos := by
    intro cs hcl hcr hp
    rw [hrep, l1, hp, seqCalls_indexed0 E cs (Dummy.ws d) (by rw [hcl, hwl]) hcr, ← hp, ← l2]
    exact Dummy.ws_resetInfos _ l3
  have hquiet : ∀ idx : List Nat, ∀ c : Cmd α ω, ¬ c.resetting →
      plan d.envs.length d.seeds d.options op = idx.map (fun i => (i, c)) →
      (Dummy.loop E d (plan d.envs.length d.seeds d.options op)).1.resetInfos = d.resetInfos := by
    intro idx c hc hp
    apply Dummy.loop_resetInfos
    intro y hy
    rw [hp] at hy
    simp only [List.mem_map] at hy
    obtain ⟨i, _, rfl⟩ := hy
    exact hc
  cases op with
  | seed sd =>
    simp only [Dummy.runOpRaw, Sys.post, Dummy.post, plan, Dummy.loop] at *
    exact ⟨by rw [hrep, hri], ⟨hviews, hri, by rw [hn], hoptions, hlen⟩⟩
  | setOptions o =>
    simp only [Dummy.runOpRaw, Sys.post, Dummy.post, plan, Dummy.loop] at *
    exact ⟨by rw [hrep, hri], ⟨hviews, hri, hseeds, by rw [hn], hlen⟩⟩
  | reset =>
    have hg := hgather _ (by simp) (plan_reset_resetting _ _ _) rfl
    simp only [Dummy.runOpRaw, Sys.post, Dummy.post] at *
    exact ⟨by rw [hg, hrep], ⟨hviews, hg, by rw [hn, l4], by rw [hn, l4], l3⟩⟩
  | step acts =>
    have hg := hgather _ (by simp only [List.length_map]; exact hv) (plan_step_resetting _) rfl
    simp only [Dummy.runOpRaw, Sys.post, Dummy.post] at *
    exact ⟨by rw [hg, hrep], ⟨hviews, hg, by rw [hseeds, l5], by rw [hoptions, l6], l3⟩⟩
  | getAttr name idx =>
    have hq := hquiet _ (Cmd.getAttr name) (fun h => h) rfl
    simp only [Dummy.runOpRaw, Sys.post, Dummy.post] at *
    exact ⟨by rw [hrep, hri, hq], ⟨hviews, by rw [hri, hq], by rw [hseeds, l5], by rw [hoptions, l6], l3⟩⟩
  | setAttr name v idx =>
    have hq := hquiet _ (Cmd.setAttr name v) (fun h => h) rfl
    simp only [Dummy.runOpRaw, Sys.post, Dummy.post] at *
    exact ⟨by rw [hrep, hri, hq], ⟨hviews, by rw [hri, hq], by rw [hseeds, l5], by rw [hoptions, l6], l3⟩⟩
  | envMethod name args idx =>
    have hq := hquiet _ (Cmd.envMethod name args) (fun h => h) rfl
    simp only [Dummy.runOpRaw, Sys.post, Dummy.post] at *
    exact ⟨by rw [hrep, hri, hq], ⟨hviews, by rw [hri, hq], by rw [hseeds, l5], by rw [hoptions, l6], l3⟩⟩
  | isWrapped cls idx =>
    have hq := hquiet _ (Cmd.isWrapped cls) (fun h => h) rfl
    simp only [Dummy.runOpRaw, Sys.post, Dummy.post] at *
    exact ⟨by rw [hrep, hri, hq], ⟨hviews, by rw [hri, hq], by rw [hseeds, l5], by rw [hoptions, l6], l3⟩⟩

/-- **One public operation, any schedule**: from states in step, `SubprocVecEnv` never dead-locks, returns exactly
what `DummyVecEnv` returns, and the states are in step again. -/
theorem runOp_equiv (E : EnvSem σ α ω ρ) (s : Sys σ α ω ρ) (d : Dummy σ ω) (sch : Sched) (op : Op α ω)
    (R : Rel E s d) (hv : op.valid d.envs.length) :
    ∃ s' sch', Sys.runOp E s sch op = some (s', sch', (Dummy.runOpRaw E d op).2) ∧
      Rel E s' (Dummy.runOpRaw E d op).1 := by
  have hn := R.n
  have hwl : (Dummy.ws d).length = d.envs.length := by simp [Dummy.ws, R.len]
  have hpl : ∀ x ∈ plan d.envs.length d.seeds d.options op, x.1 < (Dummy.ws d).length := by
    rw [hwl]; exact plan_valid _ _ _ op hv
  have hA := arun_program E _ (Dummy.ws d) hpl
  have hR := runProg_refines E s.procs sch (program (plan d.envs.length d.seeds d.options op))
  rw [R.views, hA] at hR
  obtain ⟨l1, l2, _, _, _, _⟩ := Dummy.loop_eq E (plan d.envs.length d.seeds d.options op) d R.len
  cases hx : runProg E s.procs sch (program (plan d.envs.length d.seeds d.options op)) with
  | none => rw [hx] at hR; simp at hR
  | some x =>
    rw [hx] at hR
    simp only [Option.map_some, Option.some.injEq, Prod.mk.injEq] at hR
    obtain ⟨hviews, hrep⟩ := hR
    rw [← l2] at hviews
    rw [← l1] at hrep
    obtain ⟨h1, h2⟩ := post_equiv E s d op x.1 x.2.2 hn R.ri R.seeds R.options R.len hv hviews hrep
    unfold Sys.runOp
    rw [hn, R.seeds, R.options, hx]
    simp only []
    exact ⟨_, _, by rw [h1], h2⟩

theorem Dummy.runOpRaw_length (E : EnvSem σ α ω ρ) (d : Dummy σ ω) (op : Op α ω)
    (hlen : d.envs.length = d.resetInfos.length) : (Dummy.runOpRaw E d op).1.envs.length = d.envs.length := by
  obtain ⟨_, _, _, l4, _, _⟩ := Dummy.loop_eq E (plan d.envs.length d.seeds d.options op) d hlen
  cases op <;> simpa [Dummy.runOpRaw, Dummy.post] using l4

/-- **Whole histories, any schedule.** -/
theorem runOps_equiv (E : EnvSem σ α ω ρ) (cast : ρ → ρ) (ops : List (Op α ω)) (s : Sys σ α ω ρ) (d : Dummy σ ω)
    (sch : Sched) (R : Rel E s d) (hv : ∀ op ∈ ops, op.valid d.envs.length) :
    ∃ s' sch' outs, Sys.runOps E s sch ops = some (s', sch', outs) ∧
      (Dummy.runOps E cast d ops).2 = outs.map (Out.castRews cast) ∧
      Rel E s' (Dummy.runOps E cast d ops).1 := by
  induction ops generalizing s d sch with
  | nil => exact ⟨s, sch, [], rfl, rfl, R⟩
  | cons op rest ih =>
    obtain ⟨s1, sch1, h1, R1⟩ := runOp_equiv E s d sch op R (hv op (by simp))
    have hl : (Dummy.runOpRaw E d op).1.envs.length = d.envs.length := Dummy.runOpRaw_length E d op R.len
    obtain ⟨s2, sch2, outs, h2, h3, R2⟩ := ih s1 (Dummy.runOpRaw E d op).1 sch1 R1
      (fun o ho => by rw [hl]; exact hv o (by simp [ho]))
    refine ⟨s2, sch2, (Dummy.runOpRaw E d op).2 :: outs, ?_, ?_, ?_⟩
    · simp only [Sys.runOps, h1, h2]
    · simp only [Dummy.runOps, Dummy.runOp, List.map_cons, h3]
    · simpa only [Dummy.runOps, Dummy.runOp] using R2

/-! ### in-step states are drained: nothing in any pipe, worker states = Dummy's -/

theorem runCmds_length (E : EnvSem σ α ω ρ) (w : W σ ω) (cs : List (Cmd α ω)) :
    (runCmds E w cs).2.length = cs.length := by
  induction cs generalizing w with
  | nil => rfl
  | cons c cs ih => simp [runCmds, ih]

theorem view_quiet (E : EnvSem σ α ω ρ) (p : Proc σ α ω ρ) (w : W σ ω) (h : view E p = (w, [])) :
    p.inbox = [] ∧ p.outbox = [] ∧ p.w = w := by
  simp only [view, Prod.mk.injEq, List.append_eq_nil_iff] at h
  obtain ⟨h1, h2, h3⟩ := h
  have hi : p.inbox = [] := by
    have := runCmds_length E p.w p.inbox
    rw [h3] at this
    exact List.eq_nil_of_length_eq_zero this.symm
  rw [hi] at h1
  exact ⟨hi, h2, h1⟩

theorem Rel.drained (E : EnvSem σ α ω ρ) {s : Sys σ α ω ρ} {d : Dummy σ ω} (R : Rel E s d) :
    (∀ p ∈ s.procs, p.inbox = [] ∧ p.outbox = []) ∧ s.procs.map (fun p => p.w) = Dummy.ws d := by
  have hv := R.views
  generalize Dummy.ws d = ws at hv
  generalize s.procs = ps at hv
  induction ps generalizing ws with
  | nil => cases ws <;> simp_all [quiet]
  | cons p ps ih =>
    cases ws with
    | nil => simp [quiet] at hv
    | cons w ws =>
      simp only [quiet, List.map_cons, List.cons.injEq] at hv
      obtain ⟨h1, h2, h3⟩ := view_quiet E p w hv.1
      obtain ⟨g1, g2⟩ := ih ws hv.2
      refine ⟨?_, by simp [h3, g2]⟩
      intro q hq
      simp only [List.mem_cons] at hq
      rcases hq with rfl | hq
      · exact ⟨h1, h2⟩
      · exact g1 q hq

/-! ### only the addressed sub-environments are touched -/

theorem Dummy.callEnv_untouched (E : EnvSem σ α ω ρ) (d : Dummy σ ω) (i j : Nat) (c : Cmd α ω) (h : i ≠ j) :
    (Dummy.callEnv E d i c).1.envs[j]? = d.envs[j]? ∧
    (Dummy.callEnv E d i c).1.resetInfos[j]? = d.resetInfos[j]? := by
  unfold Dummy.callEnv
  cases d.envs[i]? with
  | none => exact ⟨rfl, rfl⟩
  | some e =>
    cases c with
    | step a => simp only []; split <;> simp [List.getElem?_set_ne h]
    | reset seed opts => simp [List.getElem?_set_ne h]
    | getAttr _ => exact ⟨rfl, rfl⟩
    | setAttr _ _ => simp [List.getElem?_set_ne h]
    | envMethod _ _ => simp [List.getElem?_set_ne h]
    | isWrapped _ => exact ⟨rfl, rfl⟩
    | close => simp [List.getElem?_set_ne h]

theorem Dummy.loop_untouched (E : EnvSem σ α ω ρ) (pl : List (Nat × Cmd α ω)) (d : Dummy σ ω) (j : Nat)
    (h : ∀ x ∈ pl, x.1 ≠ j) :
    (Dummy.loop E d pl).1.envs[j]? = d.envs[j]? ∧ (Dummy.loop E d pl).1.resetInfos[j]? = d.resetInfos[j]? := by
  induction pl generalizing d with
  | nil => exact ⟨rfl, rfl⟩
  | cons x rest ih =>
    obtain ⟨i, c⟩ := x
    simp only [Dummy.loop]
    obtain ⟨h1, h2⟩ := ih (Dummy.callEnv E d i c).1 (fun y hy => h y (by simp [hy]))
    obtain ⟨g1, g2⟩ := Dummy.callEnv_untouched E d i j c (h (i, c) (by simp))
    exact ⟨by rw [h1, g1], by rw [h2, g2]⟩

theorem Dummy.loop_getAttr (E : EnvSem σ α ω ρ) (name : String) (idxs : List Nat) (d : Dummy σ ω)
    (h : ∀ i ∈ idxs, i < d.envs.length) :
    (Dummy.loop E d (idxs.map fun i => (i, (Cmd.getAttr name : Cmd α ω)))).1 = d ∧
    ((Dummy.loop E d (idxs.map fun i => (i, (Cmd.getAttr name : Cmd α ω)))).2.filterMap Reply.val?).map some =
      idxs.map (fun i => d.envs[i]?.map (fun e => E.getAttr e name)) := by
  induction idxs with
  | nil => exact ⟨rfl, rfl⟩
  | cons i rest ih =>
    have hi : i < d.envs.length := h i (by simp)
    have he : d.envs[i]? = some d.envs[i] := List.getElem?_eq_getElem hi
    have hc : Dummy.callEnv E d i (Cmd.getAttr name : Cmd α ω) = (d, .val (E.getAttr d.envs[i] name)) := by
      simp [Dummy.callEnv, he]
    obtain ⟨h1, h2⟩ := ih (fun j hj => h j (by simp [hj]))
    simp only [List.map_cons, Dummy.loop, hc]
    exact ⟨h1, by simp [Reply.val?, h2, he]⟩

/-! ### `step_async` / `step_wait` / `close`: phases of the object -/

theorem arunProg_sends_nil (E : EnvSem σ α ω ρ) (aps : List (AProc σ ω ρ)) (pl : List (Nat × Cmd α ω)) :
    arunProg E aps (sendsOf pl) = some (asends E aps pl, []) := by
  have := arunProg_sends E aps pl []
  simp only [List.append_nil, arunProg] at this
  exact this

theorem arunProg_append (E : EnvSem σ α ω ρ) (aps : List (AProc σ ω ρ)) (A B : List (PAct α ω)) :
    arunProg E aps (A ++ B) =
      (arunProg E aps A).bind fun x => (arunProg E x.1 B).map fun y => (y.1, x.2 ++ y.2) := by
  induction A generalizing aps with
  | nil =>
    simp only [List.nil_append, arunProg, Option.bind_some]
    cases arunProg E aps B <;> rfl
  | cons a rest ih =>
    cases a with
    | send i c => simp only [List.cons_append, arunProg]; exact ih _
    | recv i =>
      simp only [List.cons_append, arunProg]
      cases arecv aps i with
      | none => rfl
      | some x =>
        simp only []
        rw [ih]
        cases arunProg E x.1 rest with
        | none => rfl
        | some y =>
          simp only [Option.bind_some]
          cases arunProg E y.1 B <;> rfl

theorem asends_length (E : EnvSem σ α ω ρ) (aps : List (AProc σ ω ρ)) (pl : List (Nat × Cmd α ω)) :
    (asends E aps pl).length = aps.length := by
  induction pl generalizing aps with
  | nil => rfl
  | cons x rest ih => obtain ⟨i, c⟩ := x; simp only [asends]; rw [ih]; exact upd_length _ _ _

theorem indexedFrom_fst {β : Type} (k : Nat) (cs : List β) :
    (indexedFrom k cs).map (fun x => x.1) = List.range' k cs.length := by
  induction cs generalizing k with
  | nil => rfl
  | cons c cs ih => simp [indexedFrom, ih, List.range'_succ]

theorem recvAll_eq (acts : List α) :
    (recvAll acts.length : List (PAct α ω)) = (stepPlan acts : List (Nat × Cmd α ω)).map (fun x => PAct.recv x.1) := by
  unfold recvAll stepPlan
  have h := indexedFrom_fst 0 (acts.map (Cmd.step : α → Cmd α ω))
  rw [List.length_map] at h
  rw [List.range_eq_range', ← h, List.map_map]
  rfl

theorem closePlan_valid (n : Nat) : ∀ x ∈ (closePlan n : List (Nat × Cmd α ω)), x.1 < n := by
  intro x hx
  simp only [closePlan, List.mem_map, List.mem_range] at hx
  obtain ⟨i, hi, rfl⟩ := hx
  exact hi

theorem closePlan_quiet (n : Nat) : ∀ x ∈ (closePlan n : List (Nat × Cmd α ω)), ¬ x.2.resetting := by
  intro x hx
  simp only [closePlan, List.mem_map] at hx
  obtain ⟨i, _, rfl⟩ := hx
  exact fun h => h

theorem stepPlan_valid (acts : List α) : ∀ x ∈ (stepPlan acts : List (Nat × Cmd α ω)), x.1 < acts.length := by
  intro x hx
  have := indexedFrom_lt 0 _ x hx
  simpa using this

/-- while a step is outstanding every worker owes exactly one reply -/
theorem asends_indexed (E : EnvSem σ α ω ρ) (cs : List (Cmd α ω)) (pre : List (AProc σ ω ρ)) (mid : List (W σ ω))
    (hlen : cs.length = mid.length) :
    asends E (pre ++ quiet mid) (indexedFrom pre.length cs) =
      pre ++ List.zipWith (fun w c => ((Worker.react E w c).1, [(Worker.react E w c).2])) mid cs := by
  induction cs generalizing pre mid with
  | nil =>
    cases mid with
    | nil => simp [indexedFrom, asends, quiet]
    | cons m ms => simp at hlen
  | cons c cs ih =>
    cases mid with
    | nil => simp at hlen
    | cons m ms =>
      simp only [List.length_cons, Nat.add_right_cancel_iff] at hlen
      have hget : (pre ++ quiet (m :: ms) : List (AProc σ ω ρ))[pre.length]? = some (m, []) := by simp [quiet]
      have hset : (pre ++ quiet (m :: ms) : List (AProc σ ω ρ)).set pre.length
            ((Worker.react E m c).1, [(Worker.react E m c).2]) =
          (pre ++ [((Worker.react E m c).1, [(Worker.react E m c).2])]) ++ quiet ms := by simp [quiet]
      have hidx : pre.length + 1 = (pre ++ [((Worker.react E m c).1, [(Worker.react E m c).2])]).length := by simp
      simp only [indexedFrom, asends]
      unfold asend
      rw [upd_some _ _ _ _ hget]
      simp only [asendP, List.nil_append]
      rw [hset, hidx, ih _ ms hlen]
      simp

theorem waiting_pending_one (E : EnvSem σ α ω ρ) (ws : List (W σ ω)) (acts : List α) (h : acts.length = ws.length) :
    ∀ a ∈ asends E (quiet ws) (stepPlan acts : List (Nat × Cmd α ω)), a.2.length = 1 := by
  have := asends_indexed E (acts.map (Cmd.step : α → Cmd α ω)) [] ws (by simp [h])
  simp only [List.length_nil, List.nil_append] at this
  unfold stepPlan
  rw [this]
  clear this h
  intro a ha
  generalize acts.map (Cmd.step : α → Cmd α ω) = cs at ha
  induction ws generalizing cs with
  | nil => simp at ha
  | cons w ws ih =>
    cases cs with
    | nil => simp at ha
    | cons c cs =>
      simp only [List.zipWith_cons_cons, List.mem_cons] at ha
      rcases ha with rfl | ha
      · rfl
      · exact ih cs ha

theorem pending_length (E : EnvSem σ α ω ρ) (p : Proc σ α ω ρ) :
    (view E p).2.length = p.inbox.length + p.outbox.length := by
  simp [view, runCmds_length]; omega

/-- The objects are in step, by phase. `n` = number of sub-environments. -/
def XRel (E : EnvSem σ α ω ρ) (n : Nat) : Phase → Sub σ α ω ρ → Dum σ α ω → Prop
  | .idle, x, y => Rel E x.sys y.d ∧ x.waiting = false ∧ x.closed = false ∧ y.d.envs.length = n
  | .waiting, x, y =>
    x.waiting = true ∧ x.closed = false ∧ y.d.envs.length = n ∧ y.actions.length = n ∧
    x.sys.procs.map (view E) = asends E (quiet (Dummy.ws y.d)) (stepPlan y.actions) ∧
    x.sys.resetInfos = y.d.resetInfos ∧ x.sys.seeds = y.d.seeds ∧ x.sys.options = y.d.options ∧
    y.d.envs.length = y.d.resetInfos.length
  | .closed, x, y =>
    x.closed = true ∧ x.sys.resetInfos = y.d.resetInfos ∧ ∃ ws, x.sys.procs.map (view E) = quiet ws

theorem XRel.init (E : EnvSem σ α ω ρ) (envs : List σ) :
    XRel E envs.length .idle (Sub.init envs : Sub σ α ω ρ) (Dum.init envs) :=
  ⟨Rel.init E envs, rfl, rfl, rfl⟩

theorem castRews_empty (cast : ρ → ρ) (ri : List (Info ω)) :
    Out.castRews cast ({ resetInfos := ri } : Out ω ρ) = { resetInfos := ri } := rfl

/-- **One call, any schedule, any phase.** -/
theorem run_equiv (E : EnvSem σ α ω ρ) (cast : ρ → ρ) (n : Nat) (p p' : Phase) (x : Sub σ α ω ρ) (y : Dum σ α ω)
    (sch : Sched) (c : Call α ω) (R : XRel E n p x y) (hc : Call.next n p c = some p') :
    ∃ x' sch' out, Sub.run E x sch c = some (x', sch', out) ∧
      (Dum.run E cast y c).2 = out.castRews cast ∧ XRel E n p' x' (Dum.run E cast y c).1 := by
  cases p with
  | idle =>
    obtain ⟨R0, hw, hcl, hn⟩ := R
    have hwl : (Dummy.ws y.d).length = n := by simp [Dummy.ws, R0.len, ← hn]
    cases c with
    | op o =>
      simp only [Call.next] at hc
      split at hc
      · next hv =>
        cases hc
        rw [← hn] at hv
        obtain ⟨s', sch', h1, R1⟩ := runOp_equiv E x.sys y.d sch o R0 hv
        refine ⟨{ x with sys := s' }, sch', _, by simp only [Sub.run, h1], rfl, ?_⟩
        exact ⟨R1, hw, hcl, by rw [← hn]; exact Dummy.runOpRaw_length E y.d o R0.len⟩
      · cases hc
    | stepAsync acts =>
      simp only [Call.next] at hc
      split at hc
      · next hv =>
        cases hc
        have hR := runProg_refines E x.sys.procs sch (sendsOf (stepPlan acts))
        rw [R0.views, arunProg_sends_nil] at hR
        cases hx : runProg E x.sys.procs sch (sendsOf (stepPlan acts)) with
        | none => rw [hx] at hR; simp at hR
        | some r =>
          rw [hx] at hR
          simp only [Option.map_some, Option.some.injEq, Prod.mk.injEq] at hR
          refine ⟨_, _, _, by simp only [Sub.run, hx] <;> rfl, ?_, ?_⟩
          · simp only [Dum.run, castRews_empty, R0.ri]
          · exact ⟨rfl, hcl, hn, hv, hR.1, R0.ri, R0.seeds, R0.options, R0.len⟩
      · cases hc
    | stepWait => simp [Call.next] at hc
    | close =>
      simp only [Call.next, Option.some.injEq] at hc
      subst hc
      have hpn : x.sys.procs.length = n := by rw [R0.n, hn]
      have hA := arun_program E (closePlan n) (Dummy.ws y.d) (by rw [hwl]; exact closePlan_valid n)
      have hR := runProg_refines E x.sys.procs sch ([] ++ program (closePlan n))
      rw [List.nil_append, R0.views, hA] at hR
      obtain ⟨l1, l2, l3, l4, l5, l6⟩ := Dummy.loop_eq E (closePlan n) y.d R0.len
      cases hx : runProg E x.sys.procs sch ([] ++ program (closePlan n)) with
      | none => rw [List.nil_append] at hx; rw [hx] at hR; simp at hR
      | some r =>
        rw [List.nil_append] at hx
        rw [hx] at hR
        simp only [Option.map_some, Option.some.injEq, Prod.mk.injEq] at hR
        have hq := Dummy.loop_resetInfos E (closePlan n) y.d (closePlan_quiet n)
        refine ⟨{ x with sys := { x.sys with procs := r.1 }, closed := true }, r.2.1,
          { resetInfos := x.sys.resetInfos }, ?_, ?_, ?_⟩
        · simp only [Sub.run, hcl, hw, hpn, Bool.false_eq_true, if_false, List.nil_append, hx] <;> rfl
        · simp only [Dum.run, castRews_empty, hn, hq, R0.ri]
        · exact ⟨rfl, by simp only [Dum.run, hn, hq]; exact R0.ri, ⟨_, hR.1⟩⟩
  | waiting =>
    obtain ⟨hw, hcl, hn, han, hviews, hri, hseeds, hoptions, hlen⟩ := R
    have hwl : (Dummy.ws y.d).length = n := by simp [Dummy.ws, hlen, ← hn]
    have hpn : x.sys.procs.length = n := by
      have := congrArg List.length hviews
      rw [List.length_map, asends_length] at this
      simp only [quiet, List.length_map] at this
      rw [this, hwl]
    have hstep : arunProg E (asends E (quiet (Dummy.ws y.d)) (stepPlan y.actions))
        ((stepPlan y.actions : List (Nat × Cmd α ω)).map (fun z => PAct.recv z.1)) =
        some (quiet (seqCalls E (Dummy.ws y.d) (stepPlan y.actions)).1,
          (seqCalls E (Dummy.ws y.d) (stepPlan y.actions)).2) := by
      rw [← arunProg_sends]
      exact arun_program E (stepPlan y.actions) (Dummy.ws y.d) (by rw [hwl, ← han]; exact stepPlan_valid _)
    cases c with
    | op o => simp [Call.next] at hc
    | stepAsync acts => simp [Call.next] at hc
    | stepWait =>
      simp only [Call.next, Option.some.injEq] at hc
      subst hc
      have hR := runProg_refines E x.sys.procs sch (recvAll x.sys.procs.length)
      rw [hpn, ← han, recvAll_eq, hviews, hstep] at hR
      obtain ⟨l1, l2, _, _, _, _⟩ := Dummy.loop_eq E (stepPlan y.actions) y.d hlen
      cases hx : runProg E x.sys.procs sch (recvAll x.sys.procs.length) with
      | none =>
        rw [hpn, ← han, recvAll_eq] at hx
        rw [hx] at hR; simp at hR
      | some r =>
        have hx' := hx
        rw [hpn, ← han, recvAll_eq] at hx'
        rw [hx'] at hR
        simp only [Option.map_some, Option.some.injEq, Prod.mk.injEq] at hR
        obtain ⟨hv1, hv2⟩ := hR
        rw [← l2] at hv1
        rw [← l1] at hv2
        have hvalid : (Op.step y.actions : Op α ω).valid y.d.envs.length := by
          simp only [Op.valid]; rw [han, hn]
        obtain ⟨h1, h2⟩ := post_equiv E x.sys y.d (Op.step y.actions) r.1 r.2.2 (by rw [hpn, hn]) hri hseeds hoptions
          hlen hvalid hv1 hv2
        refine ⟨_, _, _, by simp only [Sub.run, hx] <;> rfl, ?_, ?_⟩
        · simp only [Dum.run, Dummy.runOp]
          rw [← h1, hpn, hn]
          rfl
        · exact ⟨h2, rfl, hcl, by
            simp only [Dum.run, Dummy.runOp]
            rw [Dummy.runOpRaw_length E y.d _ hlen]; exact hn⟩
    | close =>
      simp only [Call.next, Option.some.injEq] at hc
      subst hc
      have hsl : (seqCalls E (Dummy.ws y.d) (stepPlan y.actions : List (Nat × Cmd α ω))).1.length = n := by
        rw [seqCalls_length, hwl]
      have hA2 := arun_program E (closePlan n) (seqCalls E (Dummy.ws y.d) (stepPlan y.actions)).1
        (by rw [hsl]; exact closePlan_valid n)
      have hR := runProg_refines E x.sys.procs sch (recvAll n ++ program (closePlan n))
      rw [hviews, arunProg_append] at hR
      have hrecv : (recvAll n : List (PAct α ω)) =
          (stepPlan y.actions : List (Nat × Cmd α ω)).map (fun z => PAct.recv z.1) := by
        rw [← han]; exact recvAll_eq y.actions
      rw [hrecv, hstep] at hR
      simp only [Option.bind_some, hA2, Option.map_some] at hR
      rw [← hrecv] at hR
      cases hx : runProg E x.sys.procs sch (recvAll n ++ program (closePlan n)) with
      | none => rw [hx] at hR; simp at hR
      | some r =>
        rw [hx] at hR
        simp only [Option.map_some, Option.some.injEq, Prod.mk.injEq] at hR
        have hq := Dummy.loop_resetInfos E (closePlan n) y.d (closePlan_quiet n)
        refine ⟨{ x with sys := { x.sys with procs := r.1 }, closed := true }, r.2.1,
          { resetInfos := x.sys.resetInfos }, ?_, ?_, ?_⟩
        · simp only [Sub.run, hcl, hw, hpn, Bool.false_eq_true, if_false, if_true, hx] <;> rfl
        · simp only [Dum.run, castRews_empty, hn, hq, hri]
        · exact ⟨rfl, by simp only [Dum.run, hn, hq]; exact hri, ⟨_, hR.1⟩⟩
  | closed =>
    obtain ⟨hcl, hri, ws, hws⟩ := R
    cases c with
    | op o => simp [Call.next] at hc
    | stepAsync acts => simp [Call.next] at hc
    | stepWait => simp [Call.next] at hc
    | close =>
      simp only [Call.next, Option.some.injEq] at hc
      subst hc
      have hq := Dummy.loop_resetInfos E (closePlan y.d.envs.length) y.d (closePlan_quiet _)
      refine ⟨x, sch, { resetInfos := x.sys.resetInfos }, by simp only [Sub.run, hcl, if_true], ?_, ?_⟩
      · simp only [Dum.run, castRews_empty, hq, hri]
      · exact ⟨hcl, by simp only [Dum.run, hq]; exact hri, ⟨ws, hws⟩⟩

/-- **Whole histories of calls, any schedule.** -/
theorem runAll_equiv (E : EnvSem σ α ω ρ) (cast : ρ → ρ) (n : Nat) (cs : List (Call α ω)) (p p' : Phase)
    (x : Sub σ α ω ρ) (y : Dum σ α ω) (sch : Sched) (R : XRel E n p x y) (h : phaseAfter n p cs = some p') :
    ∃ x' sch' outs, Sub.runAll E x sch cs = some (x', sch', outs) ∧
      (Dum.runAll E cast y cs).2 = outs.map (Out.castRews cast) ∧ XRel E n p' x' (Dum.runAll E cast y cs).1 := by
  induction cs generalizing p x y sch with
  | nil =>
    simp only [phaseAfter, Option.some.injEq] at h
    subst h
    exact ⟨x, sch, [], rfl, rfl, R⟩
  | cons c rest ih =>
    simp only [phaseAfter] at h
    cases hc : Call.next n p c with
    | none => rw [hc] at h; cases h
    | some p1 =>
      rw [hc] at h
      obtain ⟨x1, sch1, out, h1, h2, R1⟩ := run_equiv E cast n p p1 x y sch c R hc
      obtain ⟨x2, sch2, outs, g1, g2, R2⟩ := ih p1 x1 (Dum.run E cast y c).1 sch1 R1 h
      refine ⟨x2, sch2, out :: outs, ?_, ?_, ?_⟩
      · simp only [Sub.runAll, h1, g1]
      · simp only [Dum.runAll, List.map_cons, h2, g2]
      · simpa only [Dum.runAll] using R2

theorem views_quiet_drained (E : EnvSem σ α ω ρ) (ps : List (Proc σ α ω ρ)) (ws : List (W σ ω))
    (hv : ps.map (view E) = quiet ws) : ∀ p ∈ ps, p.inbox = [] ∧ p.outbox = [] := by
  induction ps generalizing ws with
  | nil => intro p hp; cases hp
  | cons p ps ih =>
    cases ws with
    | nil => simp [quiet] at hv
    | cons w ws =>
      simp only [quiet, List.map_cons, List.cons.injEq] at hv
      obtain ⟨h1, h2, _⟩ := view_quiet E p w hv.1
      intro q hq
      simp only [List.mem_cons] at hq
      rcases hq with rfl | hq
      · exact ⟨h1, h2⟩
      · exact ih ws hv.2 q hq

end SB3Verif.Subproc
