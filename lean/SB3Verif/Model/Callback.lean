/-
Model of the callback machinery of stable-baselines3 (property C13):

* `stable_baselines3/common/callbacks.py`
    `BaseCallback` (`n_calls`, `num_timesteps`, `locals`; the six entry points `on_training_start`,
    `on_rollout_start`, `update_locals`, `on_step`, `on_rollout_end`, `on_training_end`),
    `CallbackList`, `EventCallback`, `EveryNTimesteps`, `EvalCallback`, `CheckpointCallback`,
    `StopTrainingOnMaxEpisodes`.
* the emission points of the two collection loops
    `on_policy_algorithm.py` (`learn`, `collect_rollouts`), `off_policy_algorithm.py`
    (`learn`, `collect_rollouts`) and `base_class.py::_setup_learn`.

A callback object is a tree whose nodes carry their own mutable attributes (exactly like the Python
objects). `Cb.call` is "invoke one entry point on a node": it returns the node after the call,
the remaining external streams, the boolean the entry point returned (only meaningful for
`on_step`) and the events the *observable* nodes emitted, in order.

Observables:
* a `leaf` is a user callback that records every entry point with what it can read
  (`n_calls`, `num_timesteps`, and which step its `locals` describe) and that answers `False` from
  `_on_step` at prescribed values of `n_calls`;
* `checkpoint` emits `save` when it calls `model.save`;
* `eval` emits `evalRun` when it calls `evaluate_policy`;
* `maxEp` (StopTrainingOnMaxEpisodes) emits a `step` event carrying its answer.

Externals (arguments the theorems quantify over): the mean reward of each evaluation (`Ext.evals`,
consumed in call order) and the number of sub-environments that finished an episode at each
vectorised step (`dones`).

The identity of "the locals of a step" is the number `g` of vectorised environment steps the training
environment has performed so far (1-based; `0` = no step locals seen yet).

Core only: no Mathlib.
-/

namespace SB3Verif.Callback

/-- One invocation of an entry point on the root callback by a training loop. -/
inductive Call where
  /-- `on_training_start(locals(), globals())` with `model.num_timesteps = num` -/
  | trainingStart (num : Nat)
  | rolloutStart
  /-- `update_locals(locals())` after the `g`-th vectorised environment step -/
  | updateLocals (g : Nat)
  /-- `on_step()` with `model.num_timesteps = num` -/
  | step (num : Nat)
  | rolloutEnd
  | trainingEnd
  deriving DecidableEq, Repr, Inhabited

inductive Kind where
  | trainingStart | rolloutStart | step | rolloutEnd | trainingEnd | save | evalRun
  deriving DecidableEq, Repr, Inhabited

/-- What an observable node reports. `loc` = the step its `locals` describe (`0`: none),
`ret` = what `_on_step` returned (true for the other entry points). -/
structure Event where
  id : Nat
  kind : Kind
  nCalls : Nat
  numT : Nat
  loc : Nat
  ret : Bool
  deriving DecidableEq, Repr, Inhabited

/-- External streams consumed by the tree. `starved` is set when an evaluation was requested and
the stream of evaluation results was empty (the driver rejects such a run). -/
structure Ext where
  evals : List Rat
  starved : Bool := false
  /-- `self.parent.best_mean_reward` as the callback being invoked would read it: `none` = its `parent` is not an
  `EvalCallback` (`StopTrainingOnRewardThreshold` / `StopTrainingOnNoModelImprovement` fail there),
  `some none` = `-inf`, `some (some b)` = `b`. Set by `eval` around the calls of its children. -/
  pbest : Option (Option Rat) := none
  deriving Repr

/-- Take the result of the next evaluation from the external stream. -/
def Ext.pop (x : Ext) : Rat × Ext :=
  match x.evals with
  | [] => (0, { x with starved := true })
  | m :: rest => (m, { x with evals := rest })

/-- Set the `parent.best_mean_reward` the next callee will read. -/
def Ext.setP (x : Ext) (b : Option (Option Rat)) : Ext := { x with pbest := b }

/-- Callback tree with per-node attributes.
`nc` = `n_calls`, `nt` = `num_timesteps`, `loc` = step described by `self.locals`. -/
inductive Cb where
  /-- a `None` child of an event callback -/
  | absent
  /-- recording user callback; `_on_step` returns `False` iff the new `n_calls ∈ stops` -/
  | leaf (id : Nat) (stops : List Nat) (nc nt loc : Nat)
  /-- `CallbackList` -/
  | list (id nc nt : Nat) (children : List Cb)
  /-- `EveryNTimesteps(n_steps = n, callback = child)`, `last` = `last_time_trigger` -/
  | everyN (id n last nc nt : Nat) (child : Cb)
  /-- `EvalCallback(eval_freq = freq, callback_on_new_best = onBest, callback_after_eval = after)`,
  `best` = `best_mean_reward` (`none` = `-inf`) -/
  | eval (id freq nc nt : Nat) (best : Option Rat) (onBest after : Cb)
  /-- `CheckpointCallback(save_freq = freq)` -/
  | checkpoint (id freq nc nt : Nat)
  /-- `StopTrainingOnMaxEpisodes(max_episodes = maxEpisodes)`; `_init_callback` fixes the budget
  `max_episodes * n_envs` (`nEnvs` = `training_env.num_envs`); `nEp` = `n_episodes`;
  reads `locals["dones"]` (`loc = 0`: the key is missing, the code fails an assertion) -/
  | maxEp (id maxEpisodes nEnvs nEp nc nt loc : Nat)
  /-- `ConvertCallback(f)`: an old-style function callback `f(locals, globals) -> bool`. The function is
  invoked at step events only; it counts its own invocations (`fc`) and answers `False` when that count is in
  `stops`; what it can read is `locals` (and through it the model's counter). `nc` is the `n_calls` of the
  `ConvertCallback` object (a fresh object — `nc = 0` — on every `learn` when the bare function is passed). -/
  | fn (id : Nat) (stops : List Nat) (fc nc nt loc : Nat)
  /-- `StopTrainingOnRewardThreshold(reward_threshold = thr)` (child of an `EvalCallback`) -/
  | rewardThr (id : Nat) (thr : Rat) (nc nt : Nat)
  /-- `StopTrainingOnNoModelImprovement(max_no_improvement_evals = maxNo, min_evals = minEvals)`,
  `lastBest` = `last_best_mean_reward` (`none` = `-inf`), `noImp` = `no_improvement_evals` -/
  | noImprove (id maxNo minEvals : Nat) (lastBest : Option Rat) (noImp nc nt : Nat)
  deriving Repr, Inhabited

/-- Result of invoking an entry point. -/
structure Res where
  cb : Cb
  ext : Ext
  ok : Bool
  evs : List Event
  /-- the code would raise here (StopTrainingOnMaxEpisodes without `dones` in its locals) -/
  fail : Bool := false

structure ResL where
  cbs : List Cb
  ext : Ext
  ok : Bool
  evs : List Event
  fail : Bool := false

/-- `mean_reward > self.best_mean_reward` -/
def isNewBest (best : Option Rat) (m : Rat) : Bool :=
  match best with
  | none => true
  | some b => decide (b < m)

/-- `(self.num_timesteps - self.last_time_trigger) >= self.n_steps` (Python integers). -/
def everyNDue (n last num : Nat) : Bool := decide (last + n ≤ num)

/-- `self.n_calls % self.save_freq == 0` / `eval_freq > 0 and self.n_calls % self.eval_freq == 0` -/
def checkpointDue (freq nc : Nat) : Bool := nc % freq == 0
def evalDue (freq nc : Nat) : Bool := decide (0 < freq) && nc % freq == 0

/-- `a > b` on `best_mean_reward` values (`none` = `-inf`). -/
def gtBest : Option Rat → Option Rat → Bool
  | some a, some b => decide (b < a)
  | some _, none => true
  | none, _ => false

/-- `self.parent.best_mean_reward < self.reward_threshold` -/
def belowThr (b : Option Rat) (thr : Rat) : Bool :=
  match b with
  | none => true
  | some v => decide (v < thr)

/-- Number of finished episodes `StopTrainingOnMaxEpisodes` adds at a step: `sum(locals["dones"])`. -/
abbrev Dones := Nat → Nat

mutual
/-- Invoke entry point `c` on a node. -/
def Cb.call (dones : Dones) (c : Call) : Cb → Ext → Res
  | .absent, x => { cb := .absent, ext := x, ok := true, evs := [] }
  | .leaf id stops nc nt loc, x =>
    match c with
    | .trainingStart num =>
      -- `self.locals = locals_` (the frame of `learn`: no step variables yet); `num_timesteps` refreshed
      { cb := .leaf id stops nc num 0, ext := x, ok := true, evs := [⟨id, .trainingStart, nc, num, 0, true⟩] }
    | .rolloutStart =>
      { cb := .leaf id stops nc nt loc, ext := x, ok := true, evs := [⟨id, .rolloutStart, nc, nt, loc, true⟩] }
    | .updateLocals g =>
      { cb := .leaf id stops nc nt g, ext := x, ok := true, evs := [] }
    | .step num =>
      let r := !(stops.contains (nc + 1))
      { cb := .leaf id stops (nc + 1) num loc, ext := x, ok := r, evs := [⟨id, .step, nc + 1, num, loc, r⟩] }
    | .rolloutEnd =>
      { cb := .leaf id stops nc nt loc, ext := x, ok := true, evs := [⟨id, .rolloutEnd, nc, nt, loc, true⟩] }
    | .trainingEnd =>
      { cb := .leaf id stops nc nt loc, ext := x, ok := true, evs := [⟨id, .trainingEnd, nc, nt, loc, true⟩] }
  | .list id nc nt cs, x =>
    -- every entry point is forwarded to every child in order; `on_step` ANDs without short-circuit
    let r := Cb.callL dones c cs x
    match c with
    | .trainingStart num => { cb := .list id nc num r.cbs, ext := r.ext, ok := true, evs := r.evs, fail := r.fail }
    | .step num => { cb := .list id (nc + 1) num r.cbs, ext := r.ext, ok := r.ok, evs := r.evs, fail := r.fail }
    | _ => { cb := .list id nc nt r.cbs, ext := r.ext, ok := true, evs := r.evs, fail := r.fail }
  | .everyN id n last nc nt ch, x =>
    match c with
    | .trainingStart num =>
      -- `last_time_trigger = min(last_time_trigger, num_timesteps)`, then forward to the child
      let r := ch.call dones c x
      { cb := .everyN id n (min last num) nc num r.cb, ext := r.ext, ok := true, evs := r.evs, fail := r.fail }
    | .updateLocals _ =>
      let r := ch.call dones c x
      { cb := .everyN id n last nc nt r.cb, ext := r.ext, ok := true, evs := r.evs, fail := r.fail }
    | .step num =>
      if everyNDue n last num then
        -- the child's `parent` is this EveryNTimesteps, which has no `best_mean_reward`
        let r := ch.call dones c (x.setP none)
        { cb := .everyN id n num (nc + 1) num r.cb, ext := r.ext.setP x.pbest, ok := r.ok, evs := r.evs,
          fail := r.fail }
      else
        { cb := .everyN id n last (nc + 1) num ch, ext := x, ok := true, evs := [] }
    | _ =>
      -- rollout start / end and training end are NOT forwarded by event callbacks
      { cb := .everyN id n last nc nt ch, ext := x, ok := true, evs := [] }
  | .eval id freq nc nt best onBest after, x =>
    match c with
    | .trainingStart num =>
      -- `EventCallback._on_training_start` (the after-eval child), then the on-new-best child
      let r := after.call dones c x
      let r' := onBest.call dones c r.ext
      { cb := .eval id freq nc num best r'.cb r.cb, ext := r'.ext, ok := true, evs := r.evs ++ r'.evs,
        fail := r.fail || r'.fail }
    | .updateLocals _ =>
      -- `update_child_locals`: the after-eval child, then the on-new-best child
      let r := after.call dones c x
      let r' := onBest.call dones c r.ext
      { cb := .eval id freq nc nt best r'.cb r.cb, ext := r'.ext, ok := true, evs := r.evs ++ r'.evs,
        fail := r.fail || r'.fail }
    | .step num =>
      if evalDue freq (nc + 1) then
        -- `evaluate_policy(...)`: the next mean reward of the external stream
        let m := x.pop.1
        let ev : Event := ⟨id, .evalRun, nc + 1, num, 0, true⟩
        if isNewBest best m then
          -- `self.best_mean_reward = float(mean_reward)` happens before the children are stepped
          let x1 := x.pop.2.setP (some (some m))
          let r1 := onBest.call dones c x1
          if r1.ok then
            let r2 := after.call dones c r1.ext
            { cb := .eval id freq (nc + 1) num (some m) r1.cb r2.cb, ext := r2.ext.setP x.pbest, ok := r2.ok,
              evs := ev :: (r1.evs ++ r2.evs), fail := r1.fail || r2.fail }
          else
            -- `continue_training and self._on_event()`: the after-eval child is skipped
            { cb := .eval id freq (nc + 1) num (some m) r1.cb after, ext := r1.ext.setP x.pbest, ok := false,
              evs := ev :: r1.evs, fail := r1.fail }
        else
          let x1 := x.pop.2.setP (some best)
          let r2 := after.call dones c x1
          { cb := .eval id freq (nc + 1) num best onBest r2.cb, ext := r2.ext.setP x.pbest, ok := r2.ok,
            evs := ev :: r2.evs, fail := r2.fail }
      else
        { cb := .eval id freq (nc + 1) num best onBest after, ext := x, ok := true, evs := [] }
    | _ => { cb := .eval id freq nc nt best onBest after, ext := x, ok := true, evs := [] }
  | .checkpoint id freq nc nt, x =>
    match c with
    | .trainingStart num => { cb := .checkpoint id freq nc num, ext := x, ok := true, evs := [] }
    | .step num =>
      { cb := .checkpoint id freq (nc + 1) num, ext := x, ok := true,
        evs := if checkpointDue freq (nc + 1) then [⟨id, .save, nc + 1, num, 0, true⟩] else [] }
    | _ => { cb := .checkpoint id freq nc nt, ext := x, ok := true, evs := [] }
  | .maxEp id maxEpisodes nEnvs nEp nc nt loc, x =>
    match c with
    | .trainingStart num => { cb := .maxEp id maxEpisodes nEnvs nEp nc num 0, ext := x, ok := true, evs := [] }
    | .updateLocals g => { cb := .maxEp id maxEpisodes nEnvs nEp nc nt g, ext := x, ok := true, evs := [] }
    | .step num =>
      -- `self.n_episodes += np.sum(self.locals["dones"])`; continue iff `n_episodes < max_episodes * n_envs`
      let nEp' := nEp + dones loc
      let r := decide (nEp' < maxEpisodes * nEnvs)
      { cb := .maxEp id maxEpisodes nEnvs nEp' (nc + 1) num loc, ext := x, ok := r,
        evs := [⟨id, .step, nc + 1, num, loc, r⟩], fail := loc == 0 }
    | _ => { cb := .maxEp id maxEpisodes nEnvs nEp nc nt loc, ext := x, ok := true, evs := [] }
  | .fn id stops fc nc nt loc, x =>
    match c with
    | .trainingStart num => { cb := .fn id stops fc nc num 0, ext := x, ok := true, evs := [] }
    | .updateLocals g => { cb := .fn id stops fc nc nt g, ext := x, ok := true, evs := [] }
    | .step num =>
      let r := !(stops.contains (fc + 1))
      { cb := .fn id stops (fc + 1) (nc + 1) num loc, ext := x, ok := r, evs := [⟨id, .step, fc + 1, num, loc, r⟩] }
    | _ => { cb := .fn id stops fc nc nt loc, ext := x, ok := true, evs := [] }
  | .rewardThr id thr nc nt, x =>
    match c with
    | .trainingStart num => { cb := .rewardThr id thr nc num, ext := x, ok := true, evs := [] }
    | .step num =>
      -- `bool(self.parent.best_mean_reward < self.reward_threshold)`
      let r := belowThr (x.pbest.getD none) thr
      { cb := .rewardThr id thr (nc + 1) num, ext := x, ok := r, evs := [⟨id, .step, nc + 1, num, 0, r⟩],
        fail := x.pbest.isNone }
    | _ => { cb := .rewardThr id thr nc nt, ext := x, ok := true, evs := [] }
  | .noImprove id maxNo minEvals lastBest noImp nc nt, x =>
    match c with
    | .trainingStart num => { cb := .noImprove id maxNo minEvals lastBest noImp nc num, ext := x, ok := true, evs := [] }
    | .step num =>
      let pb := x.pbest.getD none
      -- `if self.n_calls > self.min_evals: if parent.best > last_best: count = 0 else: count += 1; stop if count > max`
      let counted := decide (minEvals < nc + 1)
      let improved := gtBest pb lastBest
      let noImp' := if counted then (if improved then 0 else noImp + 1) else noImp
      let r := !(counted && !improved && decide (maxNo < noImp + 1))
      { cb := .noImprove id maxNo minEvals pb noImp' (nc + 1) num, ext := x, ok := r,
        evs := [⟨id, .step, nc + 1, num, 0, r⟩], fail := x.pbest.isNone }
    | _ => { cb := .noImprove id maxNo minEvals lastBest noImp nc nt, ext := x, ok := true, evs := [] }

/-- Invoke entry point `c` on every callback of a list, in order; AND of the answers. -/
def Cb.callL (dones : Dones) (c : Call) : List Cb → Ext → ResL
  | [], x => { cbs := [], ext := x, ok := true, evs := [] }
  | t :: ts, x =>
    let r := t.call dones c x
    let rs := Cb.callL dones c ts r.ext
    { cbs := r.cb :: rs.cbs, ext := rs.ext, ok := r.ok && rs.ok, evs := r.evs ++ rs.evs, fail := r.fail || rs.fail }
end

/-- `learn(callback=[…])` with a python list: `_init_callback` wraps the list into a *new*
`CallbackList` on every `learn` call, so the root's own counters start from zero each time
(the children are the same objects). Likewise a bare function is wrapped into a new `ConvertCallback`
each time (the function itself — its own invocation count — persists). -/
def Cb.freshRoot : Cb → Cb
  | .list id _ _ cs => .list id 0 0 cs
  | .fn id stops fc _ _ _ => .fn id stops fc 0 0 0
  | t => t

/-! ### Feeding a sequence of entry-point calls to a tree -/

/-- State of a tree under a call sequence: the tree, the externals, the accumulated events. -/
structure Run where
  cb : Cb
  ext : Ext
  evs : List Event := []
  fail : Bool := false

def Run.feed (dones : Dones) (r : Run) (c : Call) : Run × Bool :=
  let o := r.cb.call dones c r.ext
  ({ cb := o.cb, ext := o.ext, evs := r.evs ++ o.evs, fail := r.fail || o.fail }, o.ok)

def Run.feedAll (dones : Dones) (r : Run) (cs : List Call) : Run :=
  cs.foldl (fun r c => (r.feed dones c).1) r

/-- Events emitted by a tree for a call sequence. -/
def Cb.events (dones : Dones) (t : Cb) (x : Ext) (cs : List Call) : List Event :=
  (Run.feedAll dones { cb := t, ext := x } cs).evs

/-- Events emitted by a tree for a call sequence, defined by recursion on the calls
(`Cb.events_eq_evsOf` in the lemma file shows it is the same list). -/
def Cb.evsOf (dones : Dones) : Cb → Ext → List Call → List Event
  | _, _, [] => []
  | t, x, c :: cs =>
    let r := t.call dones c x
    r.evs ++ Cb.evsOf dones r.cb r.ext cs

/-- The tree and the external streams after a call sequence. -/
def Cb.after (dones : Dones) : Cb → Ext → List Call → Cb × Ext
  | t, x, [] => (t, x)
  | t, x, c :: cs =>
    let r := t.call dones c x
    Cb.after dones r.cb r.ext cs

/-- `num_timesteps` of the `on_step` calls of a call sequence. -/
def callNums : List Call → List Nat
  | [] => []
  | .step n :: cs => n :: callNums cs
  | _ :: cs => callNums cs

/-- Follow child indices through `CallbackList` nodes only: `subAt [i, j] t` is child `j` of child `i`
of the list `t` (and `none` when the path leaves the lists). -/
def subAt : List Nat → Cb → Option Cb
  | [], t => some t
  | i :: p, .list _ _ _ cs =>
    match cs[i]? with
    | some c => subAt p c
    | none => none
  | _ :: _, _ => none

/-- The events of one observable node. -/
def proj (id : Nat) (evs : List Event) : List Event := evs.filter (fun e => e.id == id)

mutual
/-- Identifiers of all nodes of a tree (pre-order). -/
def Cb.ids : Cb → List Nat
  | .absent => []
  | .leaf id _ _ _ _ => [id]
  | .list id _ _ cs => id :: Cb.idsL cs
  | .everyN id _ _ _ _ ch => id :: ch.ids
  | .eval id _ _ _ _ a b => id :: (a.ids ++ b.ids)
  | .checkpoint id _ _ _ => [id]
  | .maxEp id _ _ _ _ _ _ => [id]
  | .fn id _ _ _ _ _ => [id]
  | .rewardThr id _ _ _ => [id]
  | .noImprove id _ _ _ _ _ _ => [id]
def Cb.idsL : List Cb → List Nat
  | [] => []
  | t :: ts => t.ids ++ Cb.idsL ts
end

/- `(id, n_calls, num_timesteps, extra)` of every node, pre-order; `extra` = `last_time_trigger`
(everyN), `n_episodes` (maxEp), `loc` (leaf), else 0. `best_mean_reward` is reported by `Cb.bests`. -/
mutual
def Cb.attrs : Cb → List (Nat × Nat × Nat × Nat)
  | .absent => []
  | .leaf id _ nc nt loc => [(id, nc, nt, loc)]
  | .list id nc nt cs => (id, nc, nt, 0) :: Cb.attrsL cs
  | .everyN id _ last nc nt ch => (id, nc, nt, last) :: ch.attrs
  | .eval id _ nc nt _ a b => (id, nc, nt, 0) :: (a.attrs ++ b.attrs)
  | .checkpoint id _ nc nt => [(id, nc, nt, 0)]
  | .maxEp id _ _ nEp nc nt _ => [(id, nc, nt, nEp)]
  | .fn id _ _ nc nt loc => [(id, nc, nt, loc)]
  | .rewardThr id _ nc nt => [(id, nc, nt, 0)]
  | .noImprove id _ _ _ noImp nc nt => [(id, nc, nt, noImp)]
def Cb.attrsL : List Cb → List (Nat × Nat × Nat × Nat)
  | [] => []
  | t :: ts => t.attrs ++ Cb.attrsL ts
end

mutual
def Cb.bests : Cb → List (Nat × Option Rat)
  | .absent => []
  | .leaf .. => []
  | .list _ _ _ cs => Cb.bestsL cs
  | .everyN _ _ _ _ _ ch => ch.bests
  | .eval id _ _ _ best a b => (id, best) :: (a.bests ++ b.bests)
  | .checkpoint .. => []
  | .maxEp .. => []
  | .fn .. => []
  | .rewardThr .. => []
  | .noImprove id _ _ lastBest _ _ _ => [(id, lastBest)]
def Cb.bestsL : List Cb → List (Nat × Option Rat)
  | [] => []
  | t :: ts => t.bests ++ Cb.bestsL ts
end

/-! ### The training loops as a machine that calls the root callback

`learn` of `OnPolicyAlgorithm` and `OffPolicyAlgorithm`, reduced to what decides *which entry point is
invoked when and with which counters*. One transition = one control-flow step of the Python code
(a loop test plus the calls made before the next loop test). -/

/-- How much one rollout collects: `n_steps` vectorised steps (on-policy, or
`TrainFreq(k, "step")`), or `k` finished episodes (`TrainFreq(k, "episode")`, single env). -/
inductive RolloutKind where
  | steps (k : Nat)
  | episodes (k : Nat)
  deriving DecidableEq, Repr

/-- `n_steps < n_rollout_steps` / `should_collect_more_steps(train_freq, steps, episodes)` -/
def RolloutKind.more : RolloutKind → Nat → Nat → Bool
  | .steps k, nCollected, _ => decide (nCollected < k)
  | .episodes k, _, nEpisodes => decide (nEpisodes < k)

structure Cfg where
  nEnvs : Nat
  /-- on-policy loops call `update_locals` once more before `on_rollout_end` -/
  onPolicy : Bool
  kind : RolloutKind
  /-- number of sub-environments whose episode ended at the `g`-th vectorised step -/
  dones : Dones

/-- Program counter of `learn`. -/
inductive Pc where
  /-- `_setup_learn` done, about to call `on_training_start` -/
  | start
  /-- `while self.num_timesteps < total_timesteps` -/
  | loopHead
  /-- inside `collect_rollouts`, at the `while` test, with the two local counters -/
  | inRollout (collected episodes : Nat)
  /-- after the rollout loop ended normally, before `on_rollout_end` -/
  | rolloutTail
  /-- after the outer loop (normally or by `break`), before `on_training_end` -/
  | finish
  | done
  deriving DecidableEq, Repr

/-- Machine state, generic in the callback state `σ`. `trace` lists the calls made on the root
callback with the value each returned, oldest first. -/
structure LS (σ : Type) where
  pc : Pc
  num : Nat
  total : Nat
  g : Nat
  cb : σ
  trace : List (Call × Bool) := []

/-- Make one call on the root callback and log it. -/
def LS.invoke {σ : Type} (h : σ → Call → σ × Bool) (s : LS σ) (c : Call) : LS σ × Bool :=
  let (cb', ok) := h s.cb c
  ({ s with cb := cb', trace := s.trace ++ [(c, ok)] }, ok)

/-- One control-flow step of `learn`. -/
def LS.next {σ : Type} (cfg : Cfg) (h : σ → Call → σ × Bool) (s : LS σ) : LS σ :=
  match s.pc with
  | .start =>
    let s1 := (s.invoke h (.trainingStart s.num)).1
    { s1 with pc := .loopHead }
  | .loopHead =>
    if s.num < s.total then
      let s1 := (s.invoke h .rolloutStart).1
      { s1 with pc := .inRollout 0 0 }
    else { s with pc := .finish }
  | .inRollout collected episodes =>
    if cfg.kind.more collected episodes then
      -- env.step; num_timesteps += n_envs; update_locals; on_step
      let s0 := { s with g := s.g + 1, num := s.num + cfg.nEnvs }
      let s1 := (s0.invoke h (.updateLocals s0.g)).1
      let r := s1.invoke h (.step s1.num)
      -- `if not callback.on_step(): return False` (→ `break` in `learn`), else next loop test
      { r.1 with pc := bif r.2 then .inRollout (collected + 1) (episodes + cfg.dones r.1.g) else .finish }
    else { s with pc := .rolloutTail }
  | .rolloutTail =>
    let s1 := if cfg.onPolicy then (s.invoke h (.updateLocals s.g)).1 else s
    let s2 := (s1.invoke h .rolloutEnd).1
    { s2 with pc := .loopHead }
  | .finish =>
    let s1 := (s.invoke h .trainingEnd).1
    { s1 with pc := .done }
  | .done => s

def LS.runN {σ : Type} (cfg : Cfg) (h : σ → Call → σ × Bool) : Nat → LS σ → LS σ
  | 0, s => s
  | n + 1, s => LS.runN cfg h n (s.next cfg h)

/-- `_setup_learn`: `reset_num_timesteps` ⇒ counter := 0, else the budget is added to the counter.
The callback object and the environment (its step count `g`) persist between `learn` calls. -/
def LS.setup {σ : Type} (prevNum g : Nat) (cb : σ) (totalArg : Nat) (reset : Bool) : LS σ :=
  let num := if reset then 0 else prevNum
  { pc := .start, num := num, total := if reset then totalArg else totalArg + prevNum, g := g, cb := cb }

/-- The tree as the machine's callback. -/
def treeHandler (dones : Dones) (r : Run) (c : Call) : Run × Bool := r.feed dones c

/-- One whole `learn(total, reset_num_timesteps = reset)` with a callback tree, `fuel` control-flow
steps at most (the result's `pc` tells whether it finished). -/
def learn (cfg : Cfg) (fuel : Nat) (prevNum g : Nat) (r : Run) (totalArg : Nat) (reset : Bool) : LS Run :=
  LS.runN cfg (treeHandler cfg.dones) fuel (LS.setup prevNum g { r with evs := [] } totalArg reset)

/-! ### Specification vocabulary -/

/-- Control states of the protocol monitor. -/
inductive G where
  | init                       -- nothing yet
  | between                    -- after trainingStart or after rolloutEnd
  | rollout                    -- after rolloutStart or after a step that answered True
  | haveLocals                 -- after the update_locals that follows an environment step (a step event must follow)
  | tail                       -- after a refresh of the same step's locals (only rolloutEnd may follow)
  | stopped                    -- a step answered False (only trainingEnd may follow)
  | final                      -- after trainingEnd
  | reject
  deriving DecidableEq, Repr

/-- The property's protocol as a monitor over the `(call, answer)` sequence of one `learn`:
`trainingStart (rolloutStart (updateLocals step)* updateLocals? rolloutEnd)* trainingEnd`, where
* `num` is the timestep counter and `g` the number of vectorised environment steps made so far;
* every `step` directly follows the `update_locals` of a *new* environment step (`g + 1`) and carries
  the counter `num + d` (`d = n_envs`): one step event per vectorised step, with its counter and
  the locals of that very step;
* a `step` that answered `False` may only be followed by `trainingEnd` (no rollout end, no
  further environment step). -/
structure P where
  st : G
  num : Nat
  g : Nat
  deriving DecidableEq, Repr

def P.next (d : Nat) (p : P) (c : Call × Bool) : P :=
  match p.st, c with
  | .init, (.trainingStart n, _) => { p with st := .between, num := n }
  | .between, (.rolloutStart, _) => { p with st := .rollout }
  | .between, (.trainingEnd, _) => { p with st := .final }
  | .rollout, (.updateLocals g', _) =>
    if g' = p.g + 1 then { p with st := .haveLocals, g := g' }
    else if g' = p.g then { p with st := .tail }
    else { p with st := .reject }
  | .rollout, (.rolloutEnd, _) => { p with st := .between }
  | .tail, (.rolloutEnd, _) => { p with st := .between }
  | .haveLocals, (.step n, ok) =>
    if n = p.num + d then { p with st := if ok then .rollout else .stopped, num := n }
    else { p with st := .reject }
  | .stopped, (.trainingEnd, _) => { p with st := .final }
  | _, _ => { p with st := .reject }

/-- Monitor state after a trace, for an environment that had made `g0` steps before. -/
def P.run (d g0 : Nat) (t : List (Call × Bool)) : P := t.foldl (P.next d) { st := .init, num := 0, g := g0 }

/-- The `step` calls of a trace (their `num_timesteps`). -/
def stepNums : List (Call × Bool) → List Nat
  | [] => []
  | (.step n, _) :: t => n :: stepNums t
  | _ :: t => stepNums t

/-- `a, a+d, a+2d, …` (`k` terms) -/
def arith (a d : Nat) : Nat → List Nat
  | 0 => []
  | k + 1 => a :: arith (a + d) d k

/-- Consecutive elements of `a :: l` are at least `lo` and less than `hi` apart. -/
def gapsWithin (lo hi : Nat) : Nat → List Nat → Prop
  | _, [] => True
  | a, b :: l => a + lo ≤ b ∧ b < a + hi ∧ gapsWithin lo hi b l

/-- `num_timesteps` of the `step` events a leaf recorded. -/
def stepTimes (id : Nat) (evs : List Event) : List Nat :=
  ((proj id evs).filter (fun e => e.kind == .step)).map (·.numT)

/-- The `kind` events of node `id`, e.g. the evaluations of an `EvalCallback`. -/
def eventsOfKind (id : Nat) (k : Kind) (evs : List Event) : List Event :=
  evs.filter (fun e => e.id == id && e.kind == k)

/-- Cadence specification shared by `CheckpointCallback` and `EvalCallback`: the node's `i`-th
`on_step` overall (`i = n_calls`, counted from the node's creation, never reset by `learn`) fires iff
`freq` divides `i`; the event carries `i` and the `num_timesteps` of that very step. -/
def everyKthCall (id : Nat) (kind : Kind) (freq nc : Nat) (nums : List Nat) : List Event :=
  ((nums.zipIdx (nc + 1)).filter (fun p => p.2 % freq == 0)).map (fun p => ⟨id, kind, p.2, p.1, 0, true⟩)

/-- Episodes finished during the vectorised steps `g0+1 … g0+i` (all sub-environments). -/
def cumDones (dones : Dones) : Nat → Nat → Nat
  | _, 0 => 0
  | g0, i + 1 => dones (g0 + 1) + cumDones dones (g0 + 1) i

/-- Length of the leading run of `true` (histories are kept newest first). -/
def streak : List Bool → Nat
  | true :: l => streak l + 1
  | _ => 0

/-- A `StopTrainingOn…` child of an `EvalCallback` is stepped once per (new-best / every) evaluation and reads
its parent's `best_mean_reward` each time: feed it the sequence of those values, collect its answers. -/
def feedBests (dones : Dones) : Cb → Ext → List (Option Rat) → List Bool
  | _, _, [] => []
  | t, x, b :: bs =>
    let r := t.call dones (.step 0) (x.setP (some b))
    r.ok :: feedBests dones r.cb r.ext bs

/-- Specification of `StopTrainingOnNoModelImprovement`: `h` = history of flags, newest first, flag of call `i`
(`i` = `n_calls`) = "`i > min_evals` and the parent's best did not improve on the value seen at the previous
call"; the answer is `False` exactly when the trailing run of such calls is longer than `max_no_improvement_evals`. -/
def noImpSpec (maxNo minEvals : Nat) : List Bool → Nat → Option Rat → List (Option Rat) → List Bool
  | _, _, _, [] => []
  | h, nc, last, b :: bs =>
    let h' := (decide (minEvals < nc + 1) && !gtBest b last) :: h
    (!(decide (maxNo < streak h'))) :: noImpSpec maxNo minEvals h' (nc + 1) b bs

/-- The calls `learn` makes on a top-level callback that never stops: used to state cadence
theorems over whole `learn` histories. A segment = `trainingStart num0`, then `k` steps of `d`
timesteps each (with `update_locals`), rollout boundaries every `r` steps omitted because event
callbacks ignore them. -/
def segmentCalls (num0 d g0 : Nat) : Nat → List Call
  | 0 => []
  | k + 1 => .updateLocals (g0 + 1) :: .step (num0 + d) :: segmentCalls (num0 + d) d (g0 + 1) k

end SB3Verif.Callback
